"""Sharding over worker subprocesses, verdict merge, evidence writer, replay files, known findings.

Verdicts are three-valued and decided only from counters the monitors keep themselves:
    exit 0  HELD          every deciding monitor evaluated at least its minimum count, no violation
    exit 1  VIOLATION     at least one violation not covered by a listed known finding
    exit 2  INCONCLUSIVE  a deciding monitor was never reached / worker crashed or timed out /
                          torchjd was not imported from the repository / harness self-check failed
"""
from __future__ import annotations

import concurrent.futures as cf
import hashlib
import importlib
import json
import os
import shutil
import subprocess
import sys
import time
import traceback

from . import REPO_SRC, ROOT

PY = sys.executable
MAX_WORKERS = int(os.environ.get("VERIF_WORKERS", "16"))
MAX_VIOLATIONS_PER_SHARD = 8
MAX_SAMPLES_PER_SHARD = 2


def fingerprint(obj) -> str:
    return hashlib.sha1(json.dumps(obj, sort_keys=True, default=str).encode()).hexdigest()[:16]


class Ctx:
    """What a shard records.  Everything in here is JSON-serialisable."""

    def __init__(self, prop: str, tier: str, seed: int, shard_index: int):
        self.prop = prop
        self.tier = tier
        self.seed = seed
        self.shard_index = shard_index
        self.evaluations = 0
        self.nontrivial: set[str] = set()
        self.counters: dict[str, int] = {}
        self.not_judged_: dict[str, int] = {}
        self.classes: dict[str, int] = {}
        self.maxima: dict[str, float] = {}
        self.violations: list[dict] = []
        self.n_violations = 0
        self.samples: list = []
        self.inconclusive_: list[str] = []
        self.known_seen: dict[str, int] = {}
        self.notes: dict[str, object] = {}
        self.lines: dict[str, list[int]] = {}
        self.executable: dict[str, list[int]] = {}
        self.shard: dict | None = None  # the shard being executed (recorded with every violation: see run_replay)

    # -- bookkeeping -----------------------------------------------------------------------
    def evaluated(self, case_fp=None, nontrivial: bool = False, n: int = 1):
        self.evaluations += n
        if nontrivial and case_fp is not None:
            self.nontrivial.add(case_fp if isinstance(case_fp, str) else fingerprint(case_fp))

    def count(self, name: str, k: int = 1):
        self.counters[name] = self.counters.get(name, 0) + k

    def not_judged(self, guard: str, k: int = 1):
        self.not_judged_[guard] = self.not_judged_.get(guard, 0) + k

    def klass(self, name: str, k: int = 1):
        self.classes[name] = self.classes.get(name, 0) + k

    def maximum(self, name: str, value: float):
        value = float(value)
        if value != value:  # NaN is recorded as +inf so that it is visible
            value = float("inf")
        if name not in self.maxima or value > self.maxima[name]:
            self.maxima[name] = value

    def sample(self, case):
        if len(self.samples) < MAX_SAMPLES_PER_SHARD:
            self.samples.append(case)

    def violation(self, kind: str, case, detail):
        """A refuting observation.  `kind` names the mechanism (used by known-finding classifiers)."""
        self.n_violations += 1
        if len(self.violations) < MAX_VIOLATIONS_PER_SHARD:
            v = {"kind": kind, "case": case, "detail": detail}
            if self.shard is not None:
                v["shard"], v["shard_index"] = self.shard, self.shard_index
            self.violations.append(v)

    def inconclusive(self, reason: str):
        if len(self.inconclusive_) < 20:
            self.inconclusive_.append(reason)

    def dump(self) -> dict:
        return {
            "evaluations": self.evaluations,
            "nontrivial": sorted(self.nontrivial),
            "counters": self.counters,
            "not_judged": self.not_judged_,
            "classes": self.classes,
            "maxima": self.maxima,
            "violations": self.violations,
            "n_violations": self.n_violations,
            "samples": self.samples,
            "inconclusive": self.inconclusive_,
            "notes": self.notes,
            "lines": self.lines,
            "executable": self.executable,
        }


# --------------------------------------------------------------------------------------------
def load_prop(prop: str):
    return importlib.import_module(f"vmon.props.{prop}")


def _child_env() -> dict:
    env = dict(os.environ)
    env["PYTHONPATH"] = os.pathsep.join([REPO_SRC, ROOT])
    env["PYTHONDONTWRITEBYTECODE"] = "1"
    env["PYTHONHASHSEED"] = "0"
    env["OMP_NUM_THREADS"] = "1"
    env["MKL_NUM_THREADS"] = "1"
    env["OPENBLAS_NUM_THREADS"] = "1"
    env["TORCHJD_VERIF"] = "1"
    return env


def _run_one(prop, tier, seed, idx, shard, workdir, timeout):
    inp = os.path.join(workdir, f"shard{idx}.in.json")
    out = os.path.join(workdir, f"shard{idx}.out.json")
    with open(inp, "w") as f:
        json.dump({"prop": prop, "tier": tier, "seed": seed, "index": idx, "shard": shard}, f)
    t0 = time.time()
    try:
        p = subprocess.run(
            [PY, "-X", "faulthandler", "-m", "vmon.worker", inp, out],
            env=_child_env(), cwd=ROOT, timeout=timeout, capture_output=True, text=True,
        )
    except subprocess.TimeoutExpired:
        return {"inconclusive": [f"shard {idx} ({shard.get('kind')}) watchdog fired after {timeout}s"]}
    if not os.path.exists(out):
        tail = (p.stderr or "")[-1500:]
        return {"inconclusive": [f"shard {idx} ({shard.get('kind')}) exited {p.returncode} without result: {tail}"]}
    with open(out) as f:
        res = json.load(f)
    res["wall_s"] = time.time() - t0
    return res


def merge(results: list[dict]) -> dict:
    m = {"evaluations": 0, "nontrivial": set(), "counters": {}, "not_judged": {}, "classes": {}, "maxima": {},
         "violations": [], "n_violations": 0, "samples": [], "inconclusive": [], "notes": {}, "lines": {}, "executable": {}}
    for r in results:
        m["evaluations"] += r.get("evaluations", 0)
        m["nontrivial"].update(r.get("nontrivial", []))
        for key in ("counters", "not_judged", "classes"):
            for k, v in r.get(key, {}).items():
                m[key][k] = m[key].get(k, 0) + v
        for k, v in r.get("maxima", {}).items():
            if k not in m["maxima"] or v > m["maxima"][k]:
                m["maxima"][k] = v
        m["violations"].extend(r.get("violations", []))
        m["n_violations"] += r.get("n_violations", 0)
        m["samples"].extend(r.get("samples", []))
        m["inconclusive"].extend(r.get("inconclusive", []))
        for k, v in r.get("notes", {}).items():
            m["notes"].setdefault(k, v)
        for k, v in r.get("lines", {}).items():
            m["lines"].setdefault(k, set()).update(v)
        for k, v in r.get("executable", {}).items():
            m["executable"].setdefault(k, set()).update(v)
    return m


def anchor_files(prop: str) -> list[str]:
    try:
        with open(os.path.join(ROOT, "properties.jsonl")) as f:
            for line in f:
                d = json.loads(line)
                if d["id"] == prop:
                    return list(d["anchors"]["files"])
    except Exception:
        pass
    return []


def load_known_findings() -> list[dict]:
    path = os.path.join(ROOT, "known_findings.json")
    if not os.path.exists(path):
        return []
    with open(path) as f:
        return json.load(f).get("findings", [])


def validate_evidence(ev: dict) -> str | None:
    schema_path = os.path.join(ROOT, "schemas", "EVIDENCE.schema.json")
    try:
        import jsonschema  # from /verif/.deps
        with open(schema_path) as f:
            schema = json.load(f)
        jsonschema.validate(ev, schema)
        return None
    except ImportError:
        cov = ev.get("coverage", {})
        ok = (isinstance(cov.get("evaluations"), int) and cov["evaluations"] >= 1
              and isinstance(cov.get("distinct_nontrivial"), int) and cov["distinct_nontrivial"] >= 2
              and isinstance(cov.get("rule"), str) and isinstance(cov.get("samples"), list) and cov["samples"])
        return None if ok else "evidence fails the built-in structural check"
    except Exception as e:  # jsonschema.ValidationError
        return f"evidence does not validate: {str(e)[:300]}"


def run_property(prop: str, tier: str, seed: int) -> int:
    t0 = time.time()
    mod = load_prop(prop)
    shards = mod.shards(tier, seed)
    # pinned witnesses of listed known findings: re-observed deterministically on every run
    for k in load_known_findings():
        if k.get("property") == prop and k.get("status") == "known" and k.get("pinned_case"):
            shards.append({"kind": "pinned", "file": k["pinned_case"], "finding": k["id"]})
    workdir = os.path.join(ROOT, ".work", f"{prop}-{os.getpid()}")
    os.makedirs(workdir, exist_ok=True)
    timeout = getattr(mod, "WATCHDOG_S", {"quick": 900, "thorough": 5400}).get(tier, 900)
    try:
        with cf.ThreadPoolExecutor(max_workers=MAX_WORKERS) as ex:
            futs = [ex.submit(_run_one, prop, tier, seed, i, s, workdir, timeout) for i, s in enumerate(shards)]
            results = [f.result() for f in futs]
    finally:
        shutil.rmtree(workdir, ignore_errors=True)
    m = merge(results)

    # ---- classify violations against the committed known-findings file (never written at run time)
    known = [k for k in load_known_findings() if k.get("property") == prop and k.get("status") == "known"]
    classifiers = getattr(mod, "CLASSIFIERS", {})
    unlisted, listed = [], {}
    for v in m["violations"]:
        hit = None
        for k in known:
            fn = classifiers.get(k.get("classifier"))
            try:
                if fn is not None and fn(v):
                    hit = k
                    break
            except Exception:
                pass
        if hit is None:
            unlisted.append(v)
        else:
            listed.setdefault(hit["id"], [hit, 0])[1] += 1
    # violations beyond the per-shard cap were not stored: they can only be classified when all stored
    # ones are listed AND nothing else was seen; otherwise they count as unlisted.
    overflow = m["n_violations"] - len(m["violations"])

    # ---- witness counters: every deciding monitor must have been reached
    reqs = mod.requirements(tier)
    # a corroborating recorder that was never hit (the implementation reaches the same torch / cvxpy functionality through
    # another entry point) waives the witnesses that depend on it: the recorder-free form of the oracle still decides
    waived = sorted(getattr(mod, "waivers", lambda counters: set())(m["counters"]))
    missing = {k: (m["counters"].get(k, 0), need) for k, need in reqs.items() if m["counters"].get(k, 0) < need and k not in waived}
    inconclusive = list(m["inconclusive"])
    for k, (got, need) in missing.items():
        inconclusive.append(f"deciding monitor/witness '{k}' reached {got} < {need}")

    replay_paths = []
    if unlisted:
        # (VERIF_REPLAY_DIR: concurrent runs of one check against different trees, e.g. tools/run_seeded.py --jobs, must not
        # overwrite each other's replay files)
        rdir = os.environ.get("VERIF_REPLAY_DIR") or os.path.join(ROOT, "replays")
        os.makedirs(rdir, exist_ok=True)
        for n, v in enumerate(unlisted[:10]):
            path = os.path.join(rdir, f"{prop}-{seed}-{n}.json")
            with open(path, "w") as f:
                json.dump({"property": prop, "tier": tier, "seed": seed, **v}, f, indent=1, default=str)
            replay_paths.append(path)

    wall = time.time() - t0
    level = getattr(mod, "LEVEL", "exploration")
    lines_reached = {}
    for f in anchor_files(prop):
        ex = m["lines"].get(f, set())
        able = m["executable"].get(f, set())
        if able:
            body = sorted(able - ex)
            lines_reached[f] = {"executed": len(ex & able), "executable": len(able), "not_executed": body[:40]}
    coverage = {
        "evaluations": int(m["evaluations"]),
        "distinct_nontrivial": len(m["nontrivial"]),
        "rule": mod.RULE,
        "samples": m["samples"][:6],
        "exhaustive": bool(getattr(mod, "exhaustive", lambda t: False)(tier)),
        "exhaustive_subspace": getattr(mod, "EXHAUSTIVE_NOTE", {}).get(tier, ""),
        "monitor_hits": dict(sorted(m["counters"].items())),
        "required_witnesses": reqs,
        "waived_witnesses_recorder_not_hit": waived,
        "not_judged": dict(sorted(m["not_judged"].items())),
        "classes": dict(sorted(m["classes"].items())),
        "worst_residuals": {k: float(f"{v:.4g}") for k, v in sorted(m["maxima"].items())},
        "known_findings_seen": {k: n for k, (_, n) in listed.items()},
        "lines_reached_in_anchor_files": lines_reached,
        "shards": len(shards),
        "inconclusive_reasons": inconclusive[:10],
        "notes": m["notes"],
    }
    ev = {
        "property_id": prop, "tier": tier, "seed": int(seed), "level": level, "coverage": coverage,
        "wall_s": round(wall, 2), "violations": len(unlisted) + (overflow if unlisted else 0),
        "assumptions": getattr(mod, "ASSUMPTIONS", []),
    }
    evdir = os.environ.get("VERIF_EVIDENCE_DIR") or os.path.join(ROOT, "evidence")
    os.makedirs(evdir, exist_ok=True)
    err = validate_evidence(ev)
    if err and not unlisted:
        inconclusive.append(err)
    with open(os.path.join(evdir, f"{prop}.json"), "w") as f:
        json.dump(ev, f, indent=1, default=str)
        f.write("\n")

    for _, (k, n) in listed.items():
        print(f"KNOWN-FINDING: property={prop} {k['what']} (re-observed {n}x)")
    if unlisted:
        for v, path in zip(unlisted, replay_paths):
            print(f"  violation kind={v['kind']} detail={json.dumps(v['detail'], default=str)[:400]}")
        print(f"VIOLATION property={prop} replay={replay_paths[0]}")
        return 1
    if inconclusive:
        for r in inconclusive[:10]:
            print(f"INCONCLUSIVE property={prop} reason={r[:600]}")
        return 2
    print(f"HELD property={prop} tier={tier} seed={seed} evaluations={coverage['evaluations']} "
          f"nontrivial={coverage['distinct_nontrivial']} wall_s={wall:.1f}")
    return 0


def run_replay(prop: str, path: str) -> int:
    """Re-runs one recorded case in-process and prints both sides.

    Some violations depend on what the same worker process did BEFORE the recorded case (a long-lived aggregator instance shared by
    the cases of a shard, a contract observed during a workload): when the case alone shows nothing (or cannot be rebuilt), the
    recorded SHARD is re-executed in a fresh worker (same property, tier, seed, shard index: deterministic) and a violation of
    the recorded kind counts as the reproduction."""
    from . import boot
    boot.boot()
    mod = load_prop(prop)
    with open(path) as f:
        rec = json.load(f)
    ctx = Ctx(prop, rec.get("tier", "quick"), rec.get("seed", 0), -1)
    crashed = False
    try:
        mod.replay(rec["case"], ctx)
    except Exception:
        traceback.print_exc()
        crashed = True
    for v in ctx.violations:
        print(json.dumps(v, indent=1, default=str)[:4000])
    if ctx.violations:
        print(f"VIOLATION property={prop} replay={path}")
        return 1
    if rec.get("shard") is not None and rec["shard"].get("kind") != "pinned":
        print("the recorded case alone shows no violation: re-running the shard that produced it "
              f"(tier={rec.get('tier')} seed={rec.get('seed')} shard_index={rec.get('shard_index')} {rec['shard']})")
        workdir = os.path.join(ROOT, ".work", f"{prop}-replay-{os.getpid()}")
        os.makedirs(workdir, exist_ok=True)
        try:
            res = _run_one(prop, rec.get("tier", "quick"), rec.get("seed", 0), rec.get("shard_index", 0), rec["shard"], workdir, 5400)
        finally:
            shutil.rmtree(workdir, ignore_errors=True)
        same = [v for v in res.get("violations", []) if v.get("kind") == rec.get("kind")]
        for v in same[:2]:
            print(json.dumps({k: v[k] for k in ("kind", "detail")}, indent=1, default=str)[:3000])
        if same:
            print(f"VIOLATION property={prop} replay={path}")
            return 1
        if res.get("inconclusive"):
            print(f"INCONCLUSIVE property={prop} reason=shard re-run: {res['inconclusive'][:2]}")
            return 2
    if crashed:
        print(f"INCONCLUSIVE property={prop} reason=replay crashed")
        return 2
    print(f"HELD property={prop} (replayed case shows no violation)")
    return 0
