"""Executable reference models (float64 NumPy restatements of the statements in properties.jsonl, not of the code)."""
from __future__ import annotations

import itertools
import math

import numpy as np


# ---- dual-cone projection QP:  min v^T G v  s.t.  v >= u   (G positive definite) -------------------------------
def qp_active_set(G: np.ndarray, u: np.ndarray) -> np.ndarray:
    """Exact minimiser by enumeration of the 2^m active sets (m <= 10).  G must be symmetric positive definite."""
    m = len(u)
    best, best_val = None, np.inf
    idx = list(range(m))
    for r in range(m + 1):
        for A in itertools.combinations(idx, r):
            A = list(A)
            F = [i for i in idx if i not in A]
            v = np.empty(m)
            v[A] = u[A]
            if F:
                try:
                    v[F] = np.linalg.solve(G[np.ix_(F, F)], -G[np.ix_(F, A)] @ u[A]) if A else np.zeros(len(F))
                except np.linalg.LinAlgError:
                    continue
            if (v >= u - 1e-12 * (1 + np.abs(u))).all():
                v = np.maximum(v, u)
                val = float(v @ G @ v)
                if val < best_val:
                    best, best_val = v.copy(), val
    return best


def qp_duality_gap(G: np.ndarray, u: np.ndarray, w: np.ndarray) -> tuple[float, float]:
    """(primal infeasibility max(u - w, 0), duality gap >= ||w - w*||_G^2) for a candidate w; needs no enumeration.

    Lagrangian L(v, l) = v^T G v - l^T (v - u), l >= 0; dual value  l^T u - 1/4 l^T G^-1 l."""
    lam = np.maximum(2.0 * G @ w, 0.0)
    dual = lam @ u - 0.25 * lam @ np.linalg.solve(G, lam)
    primal = w @ G @ w
    return float(np.maximum(u - w, 0).max()), float(primal - dual)


def regularized_normalized_gramian(J: np.ndarray, norm_eps: float, reg_eps: float):
    s = float(np.linalg.svd(J, compute_uv=False)[0]) if J.size else 0.0
    m = J.shape[0]
    if s < norm_eps:
        return reg_eps * np.eye(m), s
    return (J @ J.T) / s ** 2 + reg_eps * np.eye(m), s


def dualproj_weights(J, u, norm_eps, reg_eps):
    G, s = regularized_normalized_gramian(J, norm_eps, reg_eps)
    return qp_active_set(G, u), s


def upgrad_weights(J, u, norm_eps, reg_eps):
    G, s = regularized_normalized_gramian(J, norm_eps, reg_eps)
    m = len(u)
    w = np.zeros(m)
    for i in range(m):
        e = np.zeros(m)
        e[i] = u[i]
        w += qp_active_set(G, e)
    return w, s


# ---- minimum-norm point of the convex hull of the rows ------------------------------------------------------------
def min_norm_point(G: np.ndarray) -> tuple[np.ndarray, float]:
    """argmin / min of a^T G a over the simplex by support enumeration (m <= 10), G PSD.  Returns (alpha, rho^2)."""
    m = G.shape[0]
    gmax = float(np.abs(G).max())
    if gmax == 0:
        return np.ones(m) / m, 0.0
    G_orig, G = G, G / gmax  # scale invariance: solve on the normalised Gramian
    best, best_val = None, np.inf
    for r in range(1, m + 1):
        for S in itertools.combinations(range(m), r):
            S = list(S)
            GS = G[np.ix_(S, S)]
            # stationarity on the support: G_SS a = mu 1, sum a = 1
            K = np.block([[GS, -np.ones((r, 1))], [np.ones((1, r)), np.zeros((1, 1))]])
            rhs = np.zeros(r + 1)
            rhs[-1] = 1.0
            sol = np.linalg.lstsq(K, rhs, rcond=None)[0]
            a = sol[:r]
            if (a >= -1e-12).all() and abs(a.sum() - 1) < 1e-9:
                a = np.maximum(a, 0)
                a /= a.sum()
                full = np.zeros(m)
                full[S] = a
                val = float(full @ G @ full)
                if val < best_val:
                    best, best_val = full, val
    return best, max(float(best @ G_orig @ best), 0.0)


def simplex_gap(G, alpha):
    """Frank-Wolfe duality gap of alpha for min a^T G a on the simplex: alpha^T G alpha - min_i (G alpha)_i >= 0; bounds f - f*."""
    Ga = G @ alpha
    return float(alpha @ Ga - Ga.min())


# ---- PCGrad ----------------------------------------------------------------------------------------------------------------
def pcgrad_with_orders(J: np.ndarray, orders: list[list[int]]) -> np.ndarray:
    """Sum over i of row i successively projected off every other row it conflicts with, in the given order per row."""
    m = J.shape[0]
    total = np.zeros(J.shape[1])
    for i in range(m):
        g = J[i].copy()
        for j in orders[i]:
            if j == i:
                continue
            ip = g @ J[j]
            if ip < 0:
                g = g - ip / (J[j] @ J[j]) * J[j]
        total += g
    return total


def pcgrad_candidates_per_row(J: np.ndarray, i: int) -> list[np.ndarray]:
    m = J.shape[0]
    others = [j for j in range(m) if j != i]
    outs = []
    for perm in itertools.permutations(others):
        g = J[i].copy()
        for j in perm:
            ip = g @ J[j]
            if ip < 0:
                g = g - ip / (J[j] @ J[j]) * J[j]
        if not any(np.allclose(g, o, rtol=0, atol=1e-13 * (1 + np.abs(g).max())) for o in outs):
            outs.append(g)
    return outs


def in_minkowski_sum(target: np.ndarray, cand: list[list[np.ndarray]], tol: float) -> bool:
    """Is `target` = sum_i c_i with c_i in cand[i]?  Depth-first with pruning is enough for m <= 4."""
    m = len(cand)

    def rec(i, acc):
        if i == m:
            return bool(np.abs(acc - target).max() <= tol)
        return any(rec(i + 1, acc + c) for c in cand[i])

    return rec(0, np.zeros_like(target))


# ---- robust aggregators -----------------------------------------------------------------------------------------------------
def trimmed_mean_ref(J: np.ndarray, b: int) -> np.ndarray:
    s = np.sort(J, axis=0)
    return s[b:J.shape[0] - b].mean(axis=0)


def krum_selection_ref(J: np.ndarray, f: int, k: int, neighbourhood=None) -> set[int]:
    m = J.shape[0]
    D = np.sqrt(((J[:, None, :] - J[None, :, :]) ** 2).sum(-1))
    nb = (m - f - 2) if neighbourhood is None else neighbourhood
    sc = np.array([np.sort(np.delete(D[i], i))[:nb].sum() for i in range(m)])
    return set(np.argsort(sc, kind="stable")[:k].tolist())


# ---- GradDrop ----------------------------------------------------------------------------------------------------------------
def graddrop_candidates(J: np.ndarray, leak: np.ndarray) -> tuple[np.ndarray, np.ndarray]:
    """Per coordinate: the output when the positive sign is kept, and when the negative sign is kept."""
    pos = ((leak[:, None] + (1 - leak[:, None]) * (J > 0)) * J).sum(0)
    neg = ((leak[:, None] + (1 - leak[:, None]) * (J < 0)) * J).sum(0)
    return pos, neg


GRADDROP_F = {"identity": lambda p: p, "square": lambda p: p ** 2, "sqrt": lambda p: np.sqrt(p), "steep": lambda p: np.clip(4 * (p - 0.5) + 0.5, 0, 1)}


def graddrop_purity(J: np.ndarray) -> np.ndarray:
    den = np.abs(J).sum(0)
    return 0.5 * (1 + np.divide(J.sum(0), den, out=np.full(J.shape[1], np.nan), where=den > 0))


# ---- MGDA (Algorithm 2 restated) -----------------------------------------------------------------------------------------------
def mgda_frank_wolfe(G: np.ndarray, max_iters: int, epsilon: float):
    """Frank-Wolfe with exact line search from the uniform point; also returns the smallest argmin margin met on the way."""
    m = G.shape[0]
    a = np.ones(m) / m
    margin = np.inf
    for _ in range(max_iters):
        Ga = G @ a
        srt = np.sort(Ga)
        if m >= 2:
            margin = min(margin, srt[1] - srt[0])
        t = int(np.argmin(Ga))
        e = np.zeros(m)
        e[t] = 1
        aa, bb, cc = a @ G @ e, a @ Ga, G[t, t]
        if cc <= aa:
            gamma = 1.0
        elif bb <= aa:
            gamma = 0.0
        else:
            gamma = (bb - aa) / (bb + cc - 2 * aa)
        a = (1 - gamma) * a + gamma * e
        if gamma < epsilon:
            break
    return a, margin


def lstsq_weights(J: np.ndarray, out: np.ndarray) -> np.ndarray:
    """Weights w with J^T w = out (unique when J has full row rank)."""
    return np.linalg.lstsq(J.T, out, rcond=None)[0]


def qp_nnls(G: np.ndarray, u: np.ndarray) -> np.ndarray:
    """min v^T G v s.t. v >= u by Lawson-Hanson NNLS on z = v - u >= 0 (exact active-set method, any m)."""
    from scipy.optimize import nnls
    L = np.linalg.cholesky(G)
    z, _ = nnls(L.T, -L.T @ u, maxiter=50 * len(u) + 50)
    return u + z


def qp_reference(G: np.ndarray, u: np.ndarray):
    """(v, certified gap).  Enumeration for m <= 6 (cross-checked with NNLS), NNLS beyond; always with its duality gap."""
    m = len(u)
    v = qp_nnls(G, u)
    _, gap = qp_duality_gap(G, u, v)
    if m <= 6:
        ve = qp_active_set(G, u)
        if ve is not None:
            _, gape = qp_duality_gap(G, u, ve)
            if gape <= gap:
                v, gap = ve, gape
    return v, gap


def qp_kkt_bound(G: np.ndarray, u: np.ndarray, v: np.ndarray, reg: float) -> float:
    """A-posteriori bound on ||v - v*||_G for a FEASIBLE v of  min v^T G v, v >= u  with lambda_min(G) >= reg:
    with r the KKT residual (|(Gv)_i| on the free set, max(-(Gv)_i, 0) on the active set), strong convexity gives
    ||v - v*||_G <= r * sqrt(m / reg).  The rounding of the residual itself (~ 4 eps m |G| |v|) is added to r."""
    m = len(u)
    Gv = G @ v
    free = v > u
    r = max(float(np.abs(Gv[free]).max()) if free.any() else 0.0, float(np.maximum(-Gv[~free], 0).max()) if (~free).any() else 0.0)
    r += 4 * 2.2e-16 * m * float(np.abs(G).max()) * float(np.abs(v).max())
    return r * math.sqrt(m / reg)
