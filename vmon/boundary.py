"""Recorders at the torch / cvxpy boundary underneath torchjd.

Installed BEFORE `import torchjd`, so `from torch import vmap`-style rebinding inside the library still goes
through them.  Every recorder counts its hits; a deciding recorder with zero hits makes the part of the oracle
that depends on it *not judged* — it never produces a violation by itself.
"""
from __future__ import annotations

import functools

import torch

_installed = False


class _Rec:
    def __init__(self):
        self.reset()

    def reset(self):
        self.active = False
        self.grad_events: list[dict] = []
        self.vmap_events: list[dict] = []
        self.randperm_draws: list[list[int]] = []
        self.rand_draws: list[torch.Tensor] = []
        self.randn_draws: list[torch.Tensor] = []
        self.solve_calls = 0
        # scripts (schedule injection): consumed front to back when present
        self.randperm_script: list[list[int]] | None = None
        self.rand_script: list[torch.Tensor] | None = None
        self.randn_script: list[torch.Tensor] | None = None
        self.script_underflow = 0

    def start(self):
        self.reset()
        self.active = True
        return self

    def stop(self):
        self.active = False
        return self


REC = _Rec()


def is_batched(t) -> bool:
    try:
        return bool(torch._C._functorch.is_batchedtensor(t))
    except Exception:
        return False


def install():
    global _installed
    if _installed:
        return
    _installed = True

    # ---- torch.autograd.grad -------------------------------------------------------------
    orig_grad = torch.autograd.grad

    @functools.wraps(orig_grad)
    def grad(outputs, inputs, grad_outputs=None, retain_graph=None, create_graph=False, *args, **kwargs):
        if REC.active:
            gos = grad_outputs
            if isinstance(gos, torch.Tensor):
                gos = [gos]
            REC.grad_events.append({
                "retain_graph": retain_graph,
                "is_grads_batched": bool(kwargs.get("is_grads_batched", False)),
                "batched_cotangents": any(is_batched(g) for g in (gos or []) if g is not None),
                "n_outputs": 1 if isinstance(outputs, torch.Tensor) else len(outputs),
            })
        return orig_grad(outputs, inputs, grad_outputs, retain_graph, create_graph, *args, **kwargs)

    torch.autograd.grad = grad

    # ---- torch.vmap / torch.func.vmap -----------------------------------------------------
    orig_vmap = torch.vmap

    @functools.wraps(orig_vmap)
    def vmap(func, *args, **kwargs):
        mapped = orig_vmap(func, *args, **kwargs)

        @functools.wraps(mapped)
        def call(*cargs, **ckwargs):
            if REC.active:
                first = cargs[0] if cargs else None
                while isinstance(first, (list, tuple)) and first:
                    first = first[0]
                bs = int(first.shape[0]) if isinstance(first, torch.Tensor) and first.ndim > 0 else None
                REC.vmap_events.append({"batch": bs, "chunk_size": kwargs.get("chunk_size")})
            return mapped(*cargs, **ckwargs)

        return call

    torch.vmap = vmap
    try:
        import importlib
        importlib.import_module("torch.func").vmap = vmap
    except Exception:
        pass

    # ---- RNG ----------------------------------------------------------------------------
    orig_randperm, orig_rand, orig_randn = torch.randperm, torch.rand, torch.randn

    @functools.wraps(orig_randperm)
    def randperm(n, *args, **kwargs):
        if REC.active and REC.randperm_script is not None:
            if REC.randperm_script:
                forced = REC.randperm_script.pop(0)
                if len(forced) == n:
                    out = torch.tensor(forced, dtype=torch.int64)
                    REC.randperm_draws.append(list(forced))
                    return out
            REC.script_underflow += 1
        out = orig_randperm(n, *args, **kwargs)
        if REC.active:
            REC.randperm_draws.append([int(x) for x in out])
        return out

    @functools.wraps(orig_rand)
    def rand(*args, **kwargs):
        out = orig_rand(*args, **kwargs)
        if REC.active:
            if REC.rand_script is not None:
                if REC.rand_script and REC.rand_script[0].shape == out.shape:
                    out = REC.rand_script.pop(0).to(dtype=out.dtype)
                else:
                    REC.script_underflow += 1
            REC.rand_draws.append(out.detach().clone())
        return out

    @functools.wraps(orig_randn)
    def randn(*args, **kwargs):
        out = orig_randn(*args, **kwargs)
        if REC.active:
            if REC.randn_script is not None:
                if REC.randn_script and REC.randn_script[0].shape == out.shape:
                    out = REC.randn_script.pop(0).to(dtype=out.dtype)
                else:
                    REC.script_underflow += 1
            REC.randn_draws.append(out.detach().clone())
        return out

    torch.randperm, torch.rand, torch.randn = randperm, rand, randn

    # the *_like variants reach the same generator: recorded / scripted through the same channels
    orig_rand_like, orig_randn_like = torch.rand_like, torch.randn_like

    @functools.wraps(orig_rand_like)
    def rand_like(inp, *args, **kwargs):
        out = orig_rand_like(inp, *args, **kwargs)
        if REC.active:
            if REC.rand_script is not None:
                if REC.rand_script and REC.rand_script[0].shape == out.shape:
                    out = REC.rand_script.pop(0).to(dtype=out.dtype)
                else:
                    REC.script_underflow += 1
            REC.rand_draws.append(out.detach().clone())
        return out

    @functools.wraps(orig_randn_like)
    def randn_like(inp, *args, **kwargs):
        out = orig_randn_like(inp, *args, **kwargs)
        if REC.active:
            REC.randn_draws.append(out.detach().clone())
        return out

    torch.rand_like, torch.randn_like = rand_like, randn_like

    # ---- cvxpy.Problem.solve --------------------------------------------------------------
    try:
        import cvxpy as cp
        orig_solve = cp.Problem.solve

        @functools.wraps(orig_solve)
        def solve(self, *args, **kwargs):
            if REC.active:
                REC.solve_calls += 1
            return orig_solve(self, *args, **kwargs)

        cp.Problem.solve = solve
    except Exception:
        pass
