"""Aggregator factory from JSON descriptions (public constructors only)."""
import numpy as np
import torch

DT = {"float64": torch.float64, "float32": torch.float32, "int64": torch.int64}
# monotonically increasing maps [0,1] -> [0,1] for GradDrop's `f` (documented parameter): identity (default), two that are NOT
# odd-symmetric about (0.5, 0.5), one steep symmetric one
GRADDROP_F = {"identity": None, "square": lambda p: p ** 2, "sqrt": lambda p: p.sqrt(), "steep": lambda p: (4 * (p - 0.5) + 0.5).clamp(0, 1)}


def make(desc: dict, dtype=torch.float64):
    """Builds the aggregator; desc["hook"] = {"post": a, "pre": b} additionally registers user hooks on the aggregator object
    (nn.Module API): the result of `aggregator(J)` - which is what backward must deposit - is then a * A(b * J)."""
    agg = _make(desc, dtype)
    hook = desc.get("hook")
    if hook:
        if hook.get("pre") is not None:
            agg.register_forward_pre_hook(lambda mod, inp, c=hook["pre"]: (inp[0] * c,))
        if hook.get("post") is not None:
            agg.register_forward_hook(lambda mod, inp, out, c=hook["post"]: out * c)
    return agg


def _make(desc: dict, dtype=torch.float64):
    import torchjd.aggregation as A
    name = desc["name"]
    def vec(key):
        v = desc.get(key)
        # a preference vector may legitimately be given in another dtype than the matrices (UPGrad / DualProj accept it)
        vdt = DT[desc["pref_dtype"]] if key == "pref" and desc.get("pref_dtype") else dtype
        if v is not None and desc.get("_owned") is not None:
            return desc["_owned"]  # the caller's own tensor object (must never be modified by the aggregator)
        return None if v is None else torch.tensor(v, dtype=vdt)
    if name == "Constant":
        return A.Constant(vec("weights"))
    if name == "Mean":
        return A.Mean()
    if name == "Sum":
        return A.Sum()
    if name == "UPGrad":
        kw = {k: desc[k] for k in ("norm_eps", "reg_eps") if k in desc}
        return A.UPGrad(pref_vector=vec("pref"), **kw)
    if name == "DualProj":
        kw = {k: desc[k] for k in ("norm_eps", "reg_eps") if k in desc}
        return A.DualProj(pref_vector=vec("pref"), **kw)
    if name == "MGDA":
        kw = {k: desc[k] for k in ("epsilon", "max_iters") if k in desc}
        return A.MGDA(**kw)
    if name == "Krum":
        return A.Krum(n_byzantine=desc["f"], n_selected=desc.get("k", 1))
    if name == "TrimmedMean":
        return A.TrimmedMean(trim_number=desc["b"])
    if name == "AlignedMTL":
        return A.AlignedMTL(pref_vector=vec("pref"))
    if name == "IMTLG":
        return A.IMTLG()
    if name == "ConFIG":
        return A.ConFIG(pref_vector=vec("pref"))
    if name == "CAGrad":
        kw = {k: desc[k] for k in ("norm_eps",) if k in desc}
        return A.CAGrad(c=desc["c"], **kw)
    if name == "PCGrad":
        return A.PCGrad()
    if name == "Random":
        return A.Random()
    if name == "GradDrop":
        f = GRADDROP_F.get(desc.get("f", "identity"))
        return A.GradDrop(leak=vec("leak")) if f is None else A.GradDrop(f=f, leak=vec("leak"))
    if name == "NashMTL":
        return A.NashMTL(n_tasks=desc["n_tasks"], max_norm=desc.get("max_norm", 1.0),
                         update_weights_every=desc.get("every", 1), optim_niter=desc.get("optim_niter", 20))
    raise KeyError(name)


def random_weights(rng, m, signed=True):
    w = rng.uniform(0.2, 2.0, size=m)
    if signed:
        w *= rng.choice([-1.0, 1.0], size=m)
        if m >= 3 and rng.random() < 0.3:
            w[int(rng.integers(m))] = 0.0
    # distinct magnitudes so that any row permutation is visible
    w += np.arange(m) * 0.137
    return [float(np.round(x, 4)) for x in w]


def random_linear_or_ordered(rng, m):
    """An aggregator description usable for any m >= 1, row-order sensitive most of the time."""
    r = rng.random()
    if r < 0.45:
        return {"name": "Constant", "weights": random_weights(rng, m)}
    if r < 0.55:
        return {"name": "Mean"}
    if r < 0.65:
        return {"name": "Sum"}
    if r < 0.80:
        return {"name": "UPGrad", "pref": [float(np.round(x, 3)) for x in rng.uniform(0.1, 2.0, size=m)]}
    if r < 0.88 and m >= 3:
        return {"name": "Krum", "f": 0 if m < 4 else 1, "k": 1}
    if r < 0.94 and m >= 3:
        return {"name": "TrimmedMean", "b": 1}
    return {"name": "Constant", "weights": random_weights(rng, m)}


_SHARED = {}


def shared(desc: dict, dtype=torch.float64):
    """One long-lived instance per configuration (as in a training loop): successive calls see different row counts, shapes, dtypes."""
    key = (repr(sorted((k, v) for k, v in desc.items() if k != "_owned")), str(dtype))
    if key not in _SHARED:
        _SHARED[key] = make(desc, dtype)
    return _SHARED[key]
