"""One shard in one fresh interpreter:  python -m vmon.worker IN.json OUT.json"""
import json
import sys
import traceback


def main():
    inp, out = sys.argv[1], sys.argv[2]
    with open(inp) as f:
        job = json.load(f)
    from .core import Ctx, load_prop
    ctx = Ctx(job["prop"], job["tier"], job["seed"], job["index"])
    try:
        from . import boot
        boot.boot()
        mod = load_prop(job["prop"])
        mod.run_shard(job["shard"], ctx)
    except Exception:
        ctx.inconclusive(f"shard {job['index']} ({job['shard'].get('kind')}) harness error: " + traceback.format_exc()[-1500:])
    with open(out, "w") as f:
        json.dump(ctx.dump(), f, default=str)


if __name__ == "__main__":
    main()
