"""One shard in one fresh interpreter:  python -m vmon.worker IN.json OUT.json"""
import json
import sys
import traceback


def main():
    inp, out = sys.argv[1], sys.argv[2]
    with open(inp) as f:
        job = json.load(f)
    from .core import Ctx, load_prop
    ctx = Ctx(job["prop"], job["tier"], job["seed"], job["index"])
    ctx.shard = job["shard"]
    try:
        from . import boot
        boot.boot()
        mod = load_prop(job["prop"])
        if job["shard"].get("kind") == "pinned":
            import os
            from . import ROOT
            with open(os.path.join(ROOT, job["shard"]["file"])) as f:
                mod.replay(json.load(f)["case"], ctx)
            ctx.count("pinned_known_finding_cases")
        else:
            mod.run_shard(job["shard"], ctx)
        from . import contracts
        contracts.flush(ctx, job["prop"])
        try:
            from . import reach
            ctx.lines = reach.dump()
            ctx.executable = reach.executable() if job["index"] == 0 else {}
        except Exception:
            pass
    except Exception:
        ctx.inconclusive(f"shard {job['index']} ({job['shard'].get('kind')}) harness error: " + traceback.format_exc()[-1500:])
    with open(out, "w") as f:
        json.dump(ctx.dump(), f, default=str)


if __name__ == "__main__":
    main()
