"""Hostile matrix generator + float64 well-posedness guards (DESIGN §2.2)."""
from __future__ import annotations

import itertools

import numpy as np

CLASSES = ["gaussian", "lowrank", "antiparallel", "duplicated", "zero_rows", "rowscale", "ints", "stationary_strong",
           "stationary_weak", "wide", "tall", "near_dependent", "orthogonal_rows", "nonconflicting"]


def gen(rng, m=None, n=None, klass=None, max_m=8, max_n=12) -> tuple[np.ndarray, str]:
    """One hostile matrix (float64) and the name of its class."""
    klass = klass or CLASSES[int(rng.integers(len(CLASSES)))]
    m = int(m or rng.integers(1, max_m + 1))
    n = int(n or rng.integers(1, max_n + 1))
    if klass == "wide":
        n = max(n, m + int(rng.integers(0, 4)))
    if klass == "tall":
        m = max(m, 2)
        n = int(rng.integers(1, m))
    J = rng.standard_normal((m, n))
    if klass == "lowrank":
        r = int(rng.integers(1, max(2, min(m, n))))
        J = rng.standard_normal((m, r)) @ rng.standard_normal((r, n))
    elif klass == "antiparallel" and m >= 2:
        g = rng.standard_normal(n)
        t = float(10 ** rng.uniform(-1, 1))
        delta = float(10 ** rng.uniform(-8, -1))
        J[0] = g
        J[1] = -t * g + delta * rng.standard_normal(n)
    elif klass == "duplicated" and m >= 2:
        for _ in range(int(rng.integers(1, m))):
            i, j = rng.integers(m, size=2)
            J[i] = J[j]
    elif klass == "zero_rows":
        for i in range(m):
            if rng.random() < 0.4:
                J[i] = 0.0
    elif klass == "rowscale":
        J = J * (10.0 ** rng.uniform(-6, 6, size=(m, 1)))
    elif klass == "ints":
        J = rng.integers(-1, 2, size=(m, n)).astype(np.float64)
    elif klass in ("stationary_strong", "stationary_weak") and m >= 2:
        w = rng.uniform(0.2, 1.0, size=m)
        if klass == "stationary_weak":
            w[rng.integers(m)] = 0.0
            if not w.any():
                w[0] = 1.0
        J = J - np.outer(w, w @ J) / (w @ w)
    elif klass == "near_dependent" and m >= 2:
        eps = float(10 ** rng.uniform(-10, -3))
        J[-1] = J[:-1].T @ rng.standard_normal(m - 1) + eps * rng.standard_normal(n)
    elif klass == "orthogonal_rows":
        q, _ = np.linalg.qr(rng.standard_normal((max(m, n), max(m, n))))
        J = q[:m, :n] * rng.uniform(0.5, 2.0, size=(m, 1))
    elif klass == "nonconflicting":
        J = np.abs(J)
    return np.ascontiguousarray(J, dtype=np.float64), klass


def fw_revisit(rng, n):
    """Matrices on which Frank-Wolfe takes a FULL step to a vertex that belongs to the optimal face and therefore comes back to it
    later (round 14).  In the plane: the minimum-norm point (0, h) lies inside the segment between a = (-p, h) and b = (q, h); every
    other row lies above the line y = h; one of them, far to the right, is less aligned with a than b is (so the second step does
    not go to b), and the mean is long enough for a to lie in the ball of diameter [0, mean] (first step: gamma = 1).  The plane is
    then rotated into n dimensions, scaled, and the rows are shuffled.  Only properties of the INPUT are tested while drawing."""
    for _ in range(200):
        h = rng.uniform(0.5, 3)
        p, q = rng.uniform(0.3, 2, size=2)
        d = rng.uniform(0, 1)
        rows = [(-p, h), (q, h), (q + rng.uniform(0.2, 3) + h * d / p, h + d)]
        for _ in range(int(rng.integers(0, 4))):
            rows.append((rng.uniform(-p, 4), h + rng.uniform(0.5, 4)))
        J = np.array(rows)
        mu = J.mean(axis=0)
        if mu @ J[0] >= J[0] @ J[0] and int(np.argmin(J @ mu)) == 0:
            break
    if n > 2:
        Q, _ = np.linalg.qr(rng.standard_normal((n, n)))
        J = np.hstack([J, np.zeros((len(J), n - 2))]) @ Q
    J = J * 10.0 ** rng.uniform(-1, 1)
    rng.shuffle(J)
    return J


def krum_hostile(rng, dname):
    """Matrices from the setting Krum exists for.  (a) a few nearly agreeing honest rows + attacker rows many orders of magnitude
    larger (sums of distances must not absorb the honest ones); (b) more than 25 rows sharing a large common component with a tiny
    spread (distances must not be computed as |a|^2 + |b|^2 - 2ab)."""
    if rng.random() < 0.5:
        h = int(rng.integers(4, 7))
        a = int(rng.integers(1, 3))
        n = int(rng.integers(2, 9))
        spread = float(10 ** rng.uniform(-3, -1))
        H = 1.0 + spread * rng.standard_normal((h, n))
        big = float(10 ** (rng.uniform(3, 8) if dname == "float32" else rng.uniform(3, 17)))
        A = big * rng.standard_normal((a, n))
        J = np.vstack([H, A])
        J = J[rng.permutation(h + a)]
        return np.ascontiguousarray(J), "cluster_with_huge_outliers"
    m = int(rng.integers(26, 41))
    n = int(rng.integers(8, 33))
    mag = float(10 ** rng.uniform(1.5, 3))
    spread = mag * float(10 ** (rng.uniform(-5.2, -4.0) if dname == "float32" else rng.uniform(-9, -5)))
    J = rng.standard_normal(n) * mag + spread * rng.standard_normal((m, n))
    return np.ascontiguousarray(J), "many_clustered_rows"


def well_conditioned(rng, m, n, cond=10.0, scale=1.0):
    """m <= n, full row rank, singular values log-uniform in [1/cond, 1] * scale."""
    assert m <= n
    u, _ = np.linalg.qr(rng.standard_normal((m, m)))
    vt, _ = np.linalg.qr(rng.standard_normal((n, m)))  # reduced QR: n x m with orthonormal columns (n may be 50 000)
    s = 10 ** rng.uniform(-np.log10(cond), 0, size=m)
    s[0], s[-1] = 1.0, 1.0 / cond
    if m == 1:
        s[0] = 1.0
    return (u * s) @ vt.T * scale


def haar_orthogonal(rng, n):
    q, r = np.linalg.qr(rng.standard_normal((n, n)))
    return q * np.sign(np.diag(r))


# ------------------------------------------------------------------------------------------------ guards
def smax(J) -> float:
    if J.size == 0:
        return 0.0
    return float(np.linalg.svd(J, compute_uv=False)[0])


def singular_values(J):
    return np.linalg.svd(J, compute_uv=False) if J.size else np.zeros(0)


def rank_gap(J, hi=1e-6, lo=1e-12):
    """(rank, unambiguous?) — unambiguous when every singular value is either >= hi*s1 or <= lo*s1."""
    sv = singular_values(J)
    if sv.size == 0 or sv[0] == 0:
        return 0, True
    rel = sv / sv[0]
    r = int((rel >= hi).sum())
    ok = bool(((rel >= hi) | (rel <= lo)).all())
    return r, ok


def cond_rows(J) -> float:
    """Condition number of J restricted to its row space when full row rank, inf otherwise."""
    sv = singular_values(J)
    if sv.size < J.shape[0] or sv[-1] == 0:
        return float("inf")
    if J.shape[0] > J.shape[1]:
        return float("inf")
    return float(sv[0] / sv[J.shape[0] - 1])


def unit_rows(J):
    nrm = np.linalg.norm(J, axis=1, keepdims=True)
    return np.divide(J, nrm, out=np.zeros_like(J), where=nrm > 0)


def has_conflict(J) -> bool:
    G = J @ J.T
    return bool((G < 0).any())


def krum_scores(J, f):
    m = J.shape[0]
    D = np.sqrt(((J[:, None, :] - J[None, :, :]) ** 2).sum(-1))
    k = m - f - 2
    sc = []
    for i in range(m):
        d = np.sort(np.delete(D[i], i))
        sc.append(d[:k].sum())
    return np.array(sc)


def krum_gap(J, f, k):
    """Relative gap between the k-th and the (k+1)-th smallest score (inf when k == m)."""
    sc = np.sort(krum_scores(J, f))
    if k >= len(sc):
        return float("inf")
    ref = max(abs(sc[k]), 1e-300)  # relative to the scores being compared (corrupted rows may have scores 1e12 times larger)
    return float((sc[k] - sc[k - 1]) / ref)
