"""Shared monitors for the autojac properties (C01 C02 C05 C06 C07 C12 C13 C20)."""
from __future__ import annotations

import torch

TOL_J = {"float64": 1e-10, "float32": 1e-4}


def bits_equal(a: torch.Tensor, b: torch.Tensor) -> bool:
    if a.shape != b.shape or a.dtype != b.dtype:
        return False
    return bool(torch.equal(a, b)) or bool(((a == b) | (a.isnan() & b.isnan())).all())


def snap(tensors):
    """Snapshot of .grad fields: (grad object, clone, version) per tensor."""
    out = []
    for t in tensors:
        g = t.grad
        out.append((g, None if g is None else g.detach().clone(), None if g is None else g._version))
    return out


def grads_untouched(tensors, snaps) -> list[int]:
    """Indices of tensors whose .grad is no longer the same object / bits / version."""
    bad = []
    for i, (t, (g, c, v)) in enumerate(zip(tensors, snaps)):
        if g is None:
            if t.grad is not None:
                bad.append(i)
        else:
            if t.grad is not g or g._version != v or not bits_equal(g.detach(), c):
                bad.append(i)
    return bad


def block_assignments(J_seen: torch.Tensor, ref_blocks: list[torch.Tensor], tol: float, limit: int = 1000):
    """All orders of the requested inputs such that J_seen == concatenation of their reference blocks (within tol).

    Blocks are matched by content; identical blocks (all-zero blocks of unused leaves, y = a + b) give several
    consistent assignments, all of which are returned (up to `limit`: at most 6 requested inputs => 720 orders, so that a
    Jacobian whose blocks are ALL within tolerance of each other - e.g. entries of 1e-16 - never hides the true order)."""
    n = len(ref_blocks)
    scale = max([float(b.abs().max()) if b.numel() else 0.0 for b in ref_blocks] + [0.0]) + 1.0
    res = []

    def rec(off, remaining, acc):
        if len(res) >= limit:
            return
        if not remaining:
            if off == J_seen.shape[1]:
                res.append(list(acc))
            return
        tried_shapes = set()
        for j in list(remaining):
            w = ref_blocks[j].shape[1]
            if off + w > J_seen.shape[1]:
                continue
            blk = J_seen[:, off:off + w]
            if w == 0 or float((blk - ref_blocks[j]).abs().max()) <= tol * scale:
                remaining.remove(j)
                acc.append(j)
                rec(off + w, remaining, acc)
                acc.pop()
                remaining.add(j)

    if J_seen.ndim != 2 or any(b.shape[0] != J_seen.shape[0] for b in ref_blocks):
        return []
    rec(0, set(range(n)), [])
    return res


def expected_after(before: torch.Tensor | None, piece: torch.Tensor) -> torch.Tensor:
    """`.grad` after accumulation of `piece`: clone when absent, one floating add otherwise."""
    if before is None:
        return piece.detach().clone()
    return before + piece.detach()


def container(kind: str, items: list):
    if kind == "list":
        return list(items)
    if kind == "tuple":
        return tuple(items)
    if kind == "set":
        return set(items)
    if kind == "gen":
        return (x for x in items)
    if kind == "dictkeys":
        return {x: None for x in items}.keys()
    raise KeyError(kind)


def max_abs(t: torch.Tensor) -> float:
    """max |t| - and +inf when t contains a nan (`nan > tolerance` is False: a nan in a residual must never pass for 'small')."""
    if not t.numel():
        return 0.0
    v = float(t.abs().max())
    return float("inf") if v != v else v
