"""Seeded generator of autograd programs (DAGs) that can be re-instantiated on fresh leaves (twin graphs).

A program is a JSON description; `build(desc)` executes it on fresh leaf tensors, so the same description
yields any number of twin graphs with bit-identical forward values.  The generator also keeps, per value,
the symbolic set of grad-requiring leaves that reach it through differentiable edges, and the set of
ancestor values (used to keep features mutually independent in trunk/heads programs).
"""
from __future__ import annotations

import numpy as np
import torch

MAXN = 12  # maximal number of scalars of any intermediate value
LEAF_SHAPES = [(), (1,), (2,), (3,), (2, 3), (1, 2), (3, 1), (2, 1, 2), (2, 2, 1, 2), (4,), (2, 2)]
DT = {"float64": torch.float64, "float32": torch.float32}

UNARY = ["sin", "tanh", "square", "relu", "abs", "expm", "softplus", "neg", "scale", "sigmoid", "lrelu", "addc",
         "mulc", "pyfunc"]
SHAPE_OPS = ["flatten", "t", "expand2", "stride2", "cumsum0", "softmax", "sumdim", "sumall", "meanall", "unsq"]
BINARY = ["add", "mul", "sub", "outer", "catflat", "dot"]
OTHER = ["matc", "unbind", "split", "detach", "const"]


def _numel(shape):
    n = 1
    for s in shape:
        n *= s
    return n


def _const(cseed, shape, dtype):
    a = np.random.default_rng(cseed).standard_normal(shape)
    return torch.tensor(a, dtype=torch.float64).to(dtype)


def applicable(op: str, shapes: list[tuple]) -> bool:
    """Shape-level applicability (no execution)."""
    s = shapes[0] if shapes else ()
    n = _numel(s)
    if op in UNARY or op in ("flatten", "sumall", "meanall", "detach"):
        return True
    if op == "unsq":
        return len(s) <= 3
    if op == "t":
        return len(s) >= 2
    if op == "expand2":
        return 2 * n <= MAXN and len(s) <= 3
    if op == "stride2":
        return len(s) >= 1 and s[0] >= 2
    if op in ("cumsum0", "softmax", "sumdim"):
        return len(s) >= 1
    if op in ("add", "mul", "sub"):
        return shapes[0] == shapes[1] or shapes[0] == () or shapes[1] == ()
    if op == "outer":
        return n * _numel(shapes[1]) <= MAXN
    if op == "catflat":
        return n + _numel(shapes[1]) <= MAXN
    if op == "dot":
        return n == _numel(shapes[1])
    if op == "matc":
        return True
    if op in ("unbind", "split"):
        return len(s) >= 1 and 2 <= s[0] <= 3
    return False


def apply_op(node: dict, a: list, dtype):
    op = node["op"]
    x = a[0] if a else None
    if op == "sin":
        return x.sin()
    if op == "tanh":
        return x.tanh()
    if op == "square":
        return x * x
    if op == "relu":
        return x.relu()
    if op == "abs":
        return x.abs()
    if op == "expm":
        return (0.3 * x.tanh()).exp()
    if op == "softplus":
        return torch.nn.functional.softplus(x)
    if op == "neg":
        return -x
    if op == "scale":
        return x * node["c"]
    if op == "sigmoid":
        return x.sigmoid()
    if op == "lrelu":
        return torch.where(x > 0, x, 0.5 * x)
    if op == "addc":
        return x + _const(node["cseed"], tuple(x.shape), dtype)
    if op == "mulc":
        return x * _const(node["cseed"], tuple(x.shape), dtype)
    if op == "flatten":
        return x.reshape(-1)
    if op == "t":
        return x.transpose(0, -1)
    if op == "expand2":
        return x.unsqueeze(0).expand(2, *x.shape)
    if op == "stride2":
        return x[::2]
    if op == "cumsum0":
        return x.cumsum(0)
    if op == "softmax":
        return x.softmax(-1)
    if op == "sumdim":
        return x.sum(node["dim"])
    if op == "sumall":
        return x.sum()
    if op == "meanall":
        return x.mean()
    if op == "unsq":
        return x.unsqueeze(-1)
    if op == "add":
        return a[0] + a[1]
    if op == "mul":
        return a[0] * a[1]
    if op == "sub":
        return a[0] - a[1]
    if op == "outer":
        return torch.outer(a[0].reshape(-1), a[1].reshape(-1))
    if op == "catflat":
        return torch.cat([a[0].reshape(-1), a[1].reshape(-1)])
    if op == "dot":
        return (a[0].reshape(-1) * a[1].reshape(-1)).sum()
    if op == "matc":
        k = node["k"]
        return _const(node["cseed"], (k, x.numel()), dtype) @ x.reshape(-1)
    if op == "unbind":
        return tuple(x.unbind(0))
    if op == "split":
        return tuple(x.split([1, x.shape[0] - 1], 0))
    if op == "pick":
        return x[node["i"]]
    if op == "detach":
        return x.detach()
    if op == "const":
        return _const(node["cseed"], tuple(node["shape"]), dtype)
    if op == "slice":
        return x.reshape(-1)[node["start"]:node["stop"]]
    if op == "reshape":
        return x.reshape(node["shape"])
    if op == "hostile":
        return VmapHostile.apply(x)
    if op == "pyfunc":
        return PyFunc.apply(x)
    raise KeyError(op)


class VmapHostile(torch.autograd.Function):
    """y = 1.5 x, with a backward that reads a Python number out of its cotangent: torch.vmap cannot batch it."""

    @staticmethod
    def forward(ctx, x):
        return x * 1.5

    @staticmethod
    def backward(ctx, g):
        _ = float(g.sum().item())  # data-dependent Python value: raises under vmap
        return g * 1.5


class PyFunc(torch.autograd.Function):
    """y = 1.25 sin(x) written as a user-defined autograd.Function (no vmap rule declared): its backward is ordinary tensor
    code, so torch batches it like any built-in node. Graphs of real models contain such nodes (custom layers, module hooks)."""

    @staticmethod
    def forward(ctx, x):
        ctx.save_for_backward(x)
        return x.sin() * 1.25

    @staticmethod
    def backward(ctx, g):
        (x,) = ctx.saved_tensors
        return g * x.cos() * 1.25


# ------------------------------------------------------------------------------------------------
class Built:
    """One instantiation of a program on fresh leaves."""

    def __init__(self, leaves, values, outputs, deps=None):
        self.leaves = leaves
        self.values = values
        self.outputs = outputs
        self.deps = deps

    def all_tensors(self):
        out = []
        for v in self.values:
            if isinstance(v, tuple):
                out.extend(v)
            else:
                out.append(v)
        return out


def make_leaves(leaf_descs, vseed, dtype, tag=0):
    rng = np.random.default_rng([int(vseed), int(tag)])
    leaves, arrays = [], []
    for ld in leaf_descs:
        a = rng.standard_normal(tuple(ld["shape"]))
        if "like" in ld and ld["like"] < len(arrays) and arrays[ld["like"]].shape == a.shape:
            a = arrays[ld["like"]]  # a distinct tensor with exactly the values of an earlier leaf of the same list (twin heads)
        arrays.append(a)
        t = torch.tensor(a, dtype=torch.float64).to(dtype)
        if ld.get("nc") and t.ndim >= 2:
            # same values, non-contiguous memory layout (a transposed parameter, a channels_last weight, ...)
            t = t.transpose(0, -1).contiguous().transpose(0, -1)
        if ld["rg"]:
            t.requires_grad_()
        leaves.append(t)
    return leaves


def run_nodes(nodes, values, dtype):
    for node in nodes:
        args = [values[i] for i in node["args"]]
        values.append(apply_op(node, args, dtype))
    return values


def build(desc: dict, leaves=None) -> Built:
    """Executes the program on fresh leaves (default) or on the given leaf tensors (several graphs over common leaves)."""
    dtype = DT[desc["dtype"]]
    if leaves is None:
        leaves = make_leaves(desc["leaves"], desc["vseed"], dtype)
    values = run_nodes(desc["nodes"], list(leaves), dtype)
    return Built(leaves, values, [values[i] for i in desc["outputs"]])


# ------------------------------------------------------------------------------------------------
class _Gen:
    """Incremental generator: executes while generating, so shapes are known."""

    def __init__(self, rng, dtype, values, deps, ancestors, smooth=False, linear=False):
        self.rng = rng
        self.dtype = dtype
        self.values = values            # tensors or tuples
        self.deps = deps                # list[frozenset] (leaf ids, global naming by caller)
        self.anc = ancestors            # list[frozenset] of value indices
        self.nodes = []
        self.smooth = smooth
        self.linear = linear  # only ops whose backward nodes save no tensors (add/sub/neg/shape ops): nothing is ever freed

    def tensor_ids(self):
        return [i for i, v in enumerate(self.values) if not isinstance(v, tuple)]

    def _push(self, node, result):
        args = node["args"]
        d = frozenset().union(*[self.deps[i] for i in args]) if args else frozenset()
        an = frozenset(args).union(*[self.anc[i] for i in args]) if args else frozenset()
        if node["op"] in ("detach", "const"):
            d = frozenset()
        self.nodes.append(node)
        self.values.append(result)
        self.deps.append(d)
        self.anc.append(an)
        return len(self.values) - 1

    def twin_sum(self, positions) -> bool:
        """First node a + b of two same-shaped leaves requiring grad (weight = base + delta): autograd hands ONE gradient tensor
        object to both of them."""
        by_shape = {}
        for i in positions:
            if self.deps[i]:
                by_shape.setdefault(tuple(self.values[i].shape), []).append(i)
        pairs = [v for v in by_shape.values() if len(v) >= 2]
        if not pairs:
            return False
        v = pairs[int(self.rng.integers(len(pairs)))]
        i, j = (int(x) for x in self.rng.choice(v, size=2, replace=False))
        self._push({"op": "add", "args": [i, j]}, self.values[i] + self.values[j])
        return True

    def step(self, prefer_rg=True) -> bool:
        rng = self.rng
        ids = self.tensor_ids()
        if not ids:
            return False
        r = rng.random()
        if r < 0.34:
            pool = UNARY
        elif r < 0.58:
            pool = SHAPE_OPS
        elif r < 0.86:
            pool = BINARY
        else:
            pool = OTHER
        op = pool[rng.integers(len(pool))]
        if self.linear:
            lin = ["add", "sub", "neg", "flatten", "sumall", "catflat", "t", "unsq", "stride2", "expand2", "sumdim", "add", "sub"]
            op = lin[rng.integers(len(lin))]
        if self.smooth and op in ("relu", "abs", "lrelu", "detach"):
            op = "tanh"  # (finite differences see through detach(): not comparable with autograd there)
        node = {"op": op, "args": []}
        nargs = 2 if op in BINARY else (0 if op == "const" else 1)

        def pick_operand():
            # operands are drawn from ALL earlier values: reuse / diamonds are frequent
            cand = ids
            if prefer_rg and rng.random() < 0.8:
                c2 = [i for i in ids if self.deps[i]]
                cand = c2 or ids
            return int(cand[rng.integers(len(cand))])

        for _ in range(6):
            args = [pick_operand() for _ in range(nargs)]
            shapes = [tuple(self.values[i].shape) for i in args]
            if op == "const" or applicable(op, shapes):
                break
        else:
            return False
        node["args"] = args
        if op == "scale":
            node["c"] = float(np.round(rng.uniform(-2, 2), 3)) or 0.5
        if op in ("addc", "mulc", "matc", "const"):
            node["cseed"] = int(rng.integers(1 << 30))
        if op == "matc":
            node["k"] = int(rng.integers(1, 4))
        if op == "const":
            node["shape"] = list(LEAF_SHAPES[rng.integers(len(LEAF_SHAPES))])
        if op == "sumdim":
            node["dim"] = int(rng.integers(len(shapes[0])))
        res = apply_op(node, [self.values[i] for i in args], self.dtype)
        if isinstance(res, tuple):
            idx = self._push(node, res)
            # use one output, or several (all / partly used multi-output node)
            k = len(res)
            chosen = [i for i in range(k) if rng.random() < 0.7] or [int(rng.integers(k))]
            for i in chosen:
                pn = {"op": "pick", "args": [idx], "i": i}
                self._push(pn, res[i])
            return True
        if res.numel() > MAXN or res.numel() == 0:
            return False
        if not torch.isfinite(res).all() or res.abs().max() > 1e4:
            return False
        self._push(node, res)
        return True


def _rand_leaf_descs(rng, n, p_rg=0.85):
    descs = [{"shape": list(LEAF_SHAPES[rng.integers(len(LEAF_SHAPES))]), "rg": bool(rng.random() < p_rg)}
             for _ in range(n)]
    for k in range(1, n):
        if rng.random() < 0.25:
            descs[k]["shape"] = list(descs[int(rng.integers(k))]["shape"])  # same-shaped leaves (twin sums a + b become possible)
    for d in descs:
        if len(d["shape"]) >= 2 and sum(1 for x in d["shape"] if x > 1) >= 2 and rng.random() < 0.25:
            d["nc"] = True
    if not any(d["rg"] for d in descs):
        descs[int(rng.integers(n))]["rg"] = True
    return descs


def gen_program(rng, dtype="float64", n_leaves=None, n_nodes=None, n_outputs=None, smooth=False,
                max_out_scalars=6, leaf_descs=None, vseed=None, linear=False, independent_outputs=False) -> dict:
    """A random program for backward(): leaves, nodes, 1..3 outputs requiring grad."""
    fixed_leaves, fixed_seed = leaf_descs, vseed
    for _ in range(50):
        if fixed_leaves is not None:
            leaf_descs, nl = fixed_leaves, len(fixed_leaves)
        else:
            nl = int(n_leaves or rng.integers(1, 6))
            leaf_descs = _rand_leaf_descs(rng, nl)
        vseed = int(rng.integers(1 << 30)) if fixed_seed is None else fixed_seed
        tdt = DT[dtype]
        leaves = make_leaves(leaf_descs, vseed, tdt)
        deps = [frozenset([i]) if leaf_descs[i]["rg"] else frozenset() for i in range(nl)]
        g = _Gen(rng, tdt, list(leaves), deps, [frozenset() for _ in range(nl)], smooth=smooth, linear=linear)
        target = int(n_nodes or rng.integers(1, 9))
        tries = 0
        if rng.random() < 0.3:
            g.twin_sum(range(nl))
        while len(g.nodes) < target and tries < 40:
            tries += 1
            g.step()
        cands = [i for i in g.tensor_ids() if i >= nl and g.deps[i] and g.values[i].numel() <= max_out_scalars]
        if not cands:
            continue
        no = int(n_outputs or rng.integers(1, 4))
        no = min(no, len(cands))
        # prefer late values
        w = np.array([1.0 + 2.0 * (i - nl) for i in cands])
        outs = sorted(int(i) for i in rng.choice(cands, size=no, replace=False, p=w / w.sum()))
        if independent_outputs:  # no output is an ancestor of another one (needed when the outputs become cut points)
            keep = []
            for o in outs:
                if all(o not in g.anc[k] and k not in g.anc[o] for k in keep):
                    keep.append(o)
            outs = keep
        rng.shuffle(outs)
        return {"dtype": dtype, "vseed": vseed, "leaves": leaf_descs, "nodes": g.nodes, "outputs": [int(o) for o in outs],
                "deps": [sorted(d) for d in g.deps]}
    raise RuntimeError("could not generate a program")


def program_features(desc) -> dict:
    """Cheap structural facts used for witness counters."""
    nl = len(desc["leaves"])
    use = {}
    for n in desc["nodes"]:
        for a in n["args"]:
            use[a] = use.get(a, 0) + 1
    ops = {n["op"] for n in desc["nodes"]}
    sizes = [_numel(l["shape"]) for l in desc["leaves"] if l["rg"]]
    return {
        "reuse": any(c >= 2 for c in use.values()) or any(n["op"] in BINARY and n["args"][0] == n["args"][1] for n in desc["nodes"]),
        "multi_output": bool(ops & {"unbind", "split"}),
        "has_nonrg_leaf": any(not l["rg"] for l in desc["leaves"]),
        "has_0d_leaf": any(l["shape"] == [] and l["rg"] for l in desc["leaves"]),
        "equal_sized_inputs": len(sizes) != len(set(sizes)),
        "detach": "detach" in ops,
        "n_outputs": len(desc["outputs"]),
    }


# ------------------------------------------------------------------------------------------------
# trunk / heads programs (mtl_backward)
class BuiltMTL:
    def __init__(self):
        self.shared = []       # trunk leaves
        self.trunk_values = []
        self.features = []     # tensors handed to mtl_backward (or the detached stand-ins for a cut twin)
        self.pool = []         # head leaves (pool shared between heads)
        self.head_values = []  # per head: list of values
        self.losses = []

    def all_tensors(self):
        out = []
        for vs in [self.trunk_values] + self.head_values:
            for v in vs:
                if isinstance(v, tuple):
                    out.extend(v)
                else:
                    out.append(v)
        return out


def build_mtl(desc: dict, cut: bool = False, shared=None, pool=None) -> BuiltMTL:
    dtype = DT[desc["dtype"]]
    b = BuiltMTL()
    b.shared = make_leaves(desc["shared"], desc["vseed"], dtype, tag=0) if shared is None else shared
    b.trunk_values = run_nodes(desc["trunk_nodes"], list(b.shared), dtype)
    feats = [b.trunk_values[i] for i in desc["features"]]
    if cut:
        feats = [f.detach().requires_grad_() for f in feats]
    b.features = feats
    b.pool = make_leaves(desc["pool"], desc["vseed"], dtype, tag=1) if pool is None else pool
    for h in desc["heads"]:
        base = ([feats[i] for i in h["features"]] + [b.pool[i] for i in h["leaves"]] + [b.shared[i] for i in h["around"]]
                + [b.trunk_values[i] for i in h.get("around_values", [])])
        vals = run_nodes(h["nodes"], list(base), dtype)
        b.head_values.append(vals)
        b.losses.append(vals[h["loss"]])
    return b


def gen_mtl_program(rng, dtype="float64", n_heads=None, n_features=None, allow_around=False,
                    share_pool=True, disjoint_heads=False, shared_descs=None, pool_descs=None, vseed=None,
                    allow_around_values=False, linear=False) -> dict:
    """Trunk (shared leaves -> 1..3 mutually independent features) and 1..4 heads ending in a 0-d loss.

    Leaf naming inside `deps`: ("s", i) trunk leaf, ("p", i) pool leaf.
    `disjoint_heads`: heads share no leaf and no node besides the features (needed by C13).
    """
    tdt = DT[dtype]
    fixed_seed = vseed
    for _ in range(80):
        vseed = int(rng.integers(1 << 30)) if fixed_seed is None else fixed_seed
        if shared_descs is not None:
            shared, ns = shared_descs, len(shared_descs)
        else:
            ns = int(rng.integers(1, 4))
            shared = _rand_leaf_descs(rng, ns, p_rg=0.9)
        sl = make_leaves(shared, vseed, tdt, tag=0)
        deps = [frozenset([("s", i)]) if shared[i]["rg"] else frozenset() for i in range(ns)]
        g = _Gen(rng, tdt, list(sl), deps, [frozenset() for _ in range(ns)], linear=linear)
        target = int(rng.integers(1, 7))
        tries = 0
        while len(g.nodes) < target and tries < 30:
            tries += 1
            g.step()
        cands = [i for i in g.tensor_ids() if i >= ns and g.deps[i] and g.values[i].numel() <= 6]
        if not cands:
            continue
        nf = int(n_features or rng.integers(1, 4))
        feats = []
        order = list(cands)
        rng.shuffle(order)
        for c in order:
            if len(feats) >= nf:
                break
            # mutually independent: no feature is an ancestor of another one
            if all(c not in g.anc[f] and f not in g.anc[c] for f in feats):
                feats.append(int(c))
        if not feats:
            continue
        nh = int(n_heads or rng.integers(1, 5))
        if pool_descs is not None:
            pool, npool = pool_descs, len(pool_descs)
        else:
            npool = int(rng.integers(0, 2 * nh + 1))
            pool = [{"shape": list(LEAF_SHAPES[rng.integers(len(LEAF_SHAPES))]), "rg": bool(rng.random() < 0.9)}
                    for _ in range(npool)]
            for k in range(1, npool):
                if rng.random() < 0.35:
                    pool[k]["shape"] = list(pool[int(rng.integers(k))]["shape"])
            if npool and rng.random() < 0.3:
                src = int(rng.integers(npool))
                pool.append({"shape": list(pool[src]["shape"]), "rg": True, "like": src})
                pool[src]["rg"] = True
                npool += 1
        pl = make_leaves(pool, vseed, tdt, tag=1)
        heads = []
        ok = True
        free_pool = list(range(npool))
        common_hv = None
        for h in range(nh):
            hf = [i for i in range(len(feats)) if rng.random() < 0.8]
            if not hf and rng.random() < 0.7:
                hf = [int(rng.integers(len(feats)))]
            if disjoint_heads:
                k = int(rng.integers(0, min(3, len(free_pool)) + 1))
                hl = [free_pool.pop(int(rng.integers(len(free_pool)))) for _ in range(k)]
            elif share_pool:
                hl = [i for i in range(npool) if rng.random() < 0.45]
            else:
                hl = [i for i in range(npool) if i % nh == h]
            ha = []
            if allow_around and rng.random() < 0.3:
                ha = [int(rng.integers(ns))]
            hv = []
            if allow_around_values and rng.random() < (0.6 if common_hv is not None else 0.35):
                # trunk intermediate values that are not features and not computed from a feature (siblings of a
                # multi-output node, ancestors of features, side branches): the loss reaches the trunk AROUND the features
                cv = [i for i in g.tensor_ids() if i >= ns and i not in feats and g.deps[i]
                      and not any(f in g.anc[i] for f in feats)]
                # (half of the time) a value whose leaves lie under no feature at all: it belongs to the tasks only
                fdeps = frozenset().union(*[g.deps[f] for f in feats])
                side = [i for i in cv if not (g.deps[i] & fdeps)]
                if side and rng.random() < 0.5:
                    cv = side
                if common_hv is not None and rng.random() < 0.6:
                    hv = [common_hv]  # SEVERAL heads start from one and the same intermediate (non-leaf, non-feature) tensor
                elif cv:
                    hv = [int(cv[rng.integers(len(cv))])]
                    common_hv = hv[0]
            base_vals = [g.values[feats[i]] for i in hf] + [pl[i] for i in hl] + [sl[i] for i in ha] + [g.values[i] for i in hv]
            base_deps = ([frozenset([("f", i)]) for i in hf]
                         + [frozenset([("p", i)]) if pool[i]["rg"] else frozenset() for i in hl]
                         + [frozenset([("s", i)]) if shared[i]["rg"] else frozenset() for i in ha]
                         + [g.deps[i] for i in hv])
            if not any(base_deps):
                ok = False
                break
            hg = _Gen(rng, tdt, list(base_vals), list(base_deps), [frozenset() for _ in base_vals], linear=linear)
            tgt = int(rng.integers(1, 6))
            tries = 0
            if rng.random() < 0.5:
                hg.twin_sum(range(len(hf), len(hf) + len(hl)))  # head weight = sum of two task-specific parameters
            while len(hg.nodes) < tgt and tries < 30:
                tries += 1
                hg.step()
            rgv = [i for i in hg.tensor_ids() if hg.deps[i]]
            if not rgv:
                ok = False
                break
            # loss = sum of 1..3 reduced values (late ones preferred), always 0-d
            k = int(rng.integers(1, 4))
            chosen = [rgv[-1]] + [int(rgv[rng.integers(len(rgv))]) for _ in range(k - 1)]
            acc = None
            for c in chosen:
                hg._push({"op": "sumall", "args": [c]}, hg.values[c].sum())
                cur = len(hg.values) - 1
                if acc is None:
                    acc = cur
                else:
                    hg._push({"op": "add", "args": [acc, cur]}, hg.values[acc] + hg.values[cur])
                    acc = len(hg.values) - 1
            lossv = hg.values[acc]
            if not torch.isfinite(lossv) or lossv.abs() > 1e6:
                ok = False
                break
            heads.append({"features": hf, "leaves": hl, "around": ha, "around_values": hv, "nodes": hg.nodes, "loss": int(acc),
                          "deps": sorted(map(list, hg.deps[acc]))})
        if not ok:
            continue
        # twin heads: a head repeated on a twin parameter (same values, another tensor): two DIFFERENT loss tensors with exactly
        # EQUAL values (identically initialised heads on the same target), each with its own parameter
        for j in range(npool):
            src = pool[j].get("like")
            if src is None or len(heads) >= 5:
                continue
            for h in list(heads):
                if src in h["leaves"] and j not in h["leaves"] and (not disjoint_heads or h["leaves"] == [src]) \
                        and not any(j in h2["leaves"] for h2 in heads):
                    tw = {**h, "leaves": [j if x == src else x for x in h["leaves"]],
                          "deps": sorted([d[0], j] if (d[0] == "p" and d[1] == src) else list(d) for d in h["deps"]), "twin_of_head": heads.index(h)}
                    heads.append(tw)
                    break
        return {"dtype": dtype, "vseed": vseed, "shared": shared, "trunk_nodes": g.nodes, "features": feats,
                "feature_deps": [sorted(map(list, g.deps[f])) for f in feats], "pool": pool, "heads": heads}
    raise RuntimeError("could not generate a trunk/heads program")


# ------------------------------------------------------------------------------------------------
# reference Jacobian: row by row with torch.autograd on a twin graph (no vmap, no torchjd code)
def reference_jacobian(outputs, inputs) -> list[torch.Tensor]:
    """For each input, the matrix [sum of output scalars, input.numel()] of d out_scalar / d input."""
    rows = []
    if not inputs:
        return []
    for out in outputs:
        flat = out.reshape(-1)
        for i in range(flat.numel()):
            if not flat[i].requires_grad:
                rows.append([torch.zeros(inp.numel(), dtype=inp.dtype) for inp in inputs])
                continue
            gs = torch.autograd.grad(flat[i], inputs, retain_graph=True, allow_unused=True)
            rows.append([torch.zeros(inp.numel(), dtype=inp.dtype) if g is None else g.reshape(-1).detach().clone()
                         for g, inp in zip(gs, inputs)])
    return [torch.stack([r[j] for r in rows]) if rows else torch.zeros(0, inp.numel(), dtype=inp.dtype)
            for j, inp in enumerate(inputs)]


def reachable(outputs, inputs) -> list[bool]:
    """Behavioural dependency: autograd.grad(sum outputs, leaf, allow_unused) is not None."""
    tot = None
    for o in outputs:
        if o.requires_grad:
            tot = o.sum() if tot is None else tot + o.sum()
    if tot is None:
        return [False] * len(inputs)
    gs = torch.autograd.grad(tot, inputs, retain_graph=True, allow_unused=True)
    return [g is not None for g in gs]


def feature_nodes_chained(features) -> bool:
    """True when the backward node of one feature is reachable from the (different) backward node of another feature.

    torch's engine marks every node from which a captured node is reachable as 'needed': asking for the gradient of a
    loss w.r.t. such features executes (and, with retain_graph=False, frees) the trunk nodes in between."""
    fns = [f.grad_fn for f in features]
    for i, start in enumerate(fns):
        if start is None:
            continue
        targets = {id(fn) for j, fn in enumerate(fns) if j != i and fn is not None and fn is not start}
        if not targets:
            continue
        seen, stack = {id(start)}, [start]
        while stack:
            n = stack.pop()
            for child, _ in n.next_functions:
                if child is None or id(child) in seen:
                    continue
                if id(child) in targets:
                    return True
                seen.add(id(child))
                stack.append(child)
    return False


def with_rows(desc: dict, m: int, rng, hostile: bool = False) -> dict:
    """Rewrites the outputs of a program so that they hold exactly `m` scalars in 1..3 tensors (C07's (m, k) grid)."""
    d = {k: v for k, v in desc.items()}
    nodes = list(desc["nodes"])
    deps = [list(x) for x in desc["deps"]]
    nl = len(desc["leaves"])
    rgv = [i for i in range(len(deps)) if deps[i] and not _is_tuple_value(desc, i)]
    def push(node, dep):
        nodes.append(node)
        deps.append(sorted(dep))
        return nl + len(nodes) - 1
    sizes = _value_sizes(desc)
    cur = int(rgv[rng.integers(len(rgv))])
    cur_n, cur_dep = sizes[cur], set(deps[cur])
    cur = push({"op": "flatten", "args": [cur]}, cur_dep)
    while cur_n < m:
        other = int(rgv[rng.integers(len(rgv))])
        cur_dep |= set(deps[other])
        cur = push({"op": "catflat", "args": [cur, other]}, cur_dep)
        cur_n += sizes[other]
    if hostile:
        cur = push({"op": "hostile", "args": [cur]}, cur_dep)
    cuts = sorted(set([0, m] + [int(x) for x in rng.integers(1, m, size=int(rng.integers(0, 3)))] if m > 1 else [0, m]))
    outs = []
    for a, b in zip(cuts[:-1], cuts[1:]):
        o = push({"op": "slice", "args": [cur], "start": a, "stop": b}, cur_dep)
        n = b - a
        if n % 2 == 0 and n >= 4 and rng.random() < 0.5:
            o = push({"op": "reshape", "args": [o], "shape": [2, n // 2]}, cur_dep)
        elif n == 1 and rng.random() < 0.5:
            o = push({"op": "reshape", "args": [o], "shape": []}, cur_dep)
        outs.append(o)
    d["nodes"], d["deps"], d["outputs"] = nodes, deps, outs
    return d


def _is_tuple_value(desc, idx):
    nl = len(desc["leaves"])
    return idx >= nl and desc["nodes"][idx - nl]["op"] in ("unbind", "split")


def _value_sizes(desc):
    b = build(desc)
    return [0 if isinstance(v, tuple) else v.numel() for v in b.values]


def freed_signature(roots) -> list:
    """Per node of the autograd graph (BFS order from the roots): which saved fields are live / freed / plain values.

    A node fails in a further differentiation iff its saved tensors were released (getattr raises RuntimeError)."""
    seen, order, queue = set(), [], []
    for r in roots:
        fn = r.grad_fn if isinstance(r, torch.Tensor) else r
        if fn is not None and id(fn) not in seen:
            seen.add(id(fn))
            queue.append(fn)
    while queue:
        n = queue.pop(0)
        st = []
        for a in sorted(x for x in dir(n) if x.startswith("_saved_")):
            try:
                v = getattr(n, a)
                st.append((a, "live" if isinstance(v, torch.Tensor) or (isinstance(v, (list, tuple)) and any(isinstance(x, torch.Tensor) for x in v)) else "plain"))
            except RuntimeError:
                st.append((a, "freed"))
        order.append((type(n).__name__, tuple(st)))
        for child, _ in n.next_functions:
            if child is not None and id(child) not in seen:
                seen.add(id(child))
                queue.append(child)
    return order
