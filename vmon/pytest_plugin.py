"""pytest plugin: runs the repository's own tests with the harness-side contracts switched on (guard TORCHJD_VERIF=1).

    cd /repo && TORCHJD_VERIF=1 VERIF_CONTRACT_REPORT=/path/report.json PYTHONPATH=/repo/src:/verif \
        /venv/bin/python -m pytest -q -p vmon.pytest_plugin -p no:cacheprovider tests

With the guard off the plugin does nothing.  The contracts record and never raise, so they cannot change a test outcome.
"""
import json
import os


def pytest_configure(config):
    if os.environ.get("TORCHJD_VERIF") != "1":
        return
    import vmon  # noqa: F401  (adds /verif/.deps at the end of sys.path)
    from vmon import contracts
    import torchjd  # noqa: F401
    contracts.install()


def pytest_sessionfinish(session, exitstatus):
    if os.environ.get("TORCHJD_VERIF") != "1":
        return
    from vmon import contracts
    path = os.environ.get("VERIF_CONTRACT_REPORT")
    if path:
        with open(path, "w") as f:
            json.dump({"stats": contracts.STATS, "violations": contracts.VIOLATIONS, "exitstatus": int(exitstatus)}, f, default=str)
