"""Always-on contracts on Aggregator.__call__ and Transform.__call__ (DESIGN §3).

Attached with icontract (snapshot + ensure, named condition functions) to the class attributes, so that every reference —
including the ones backward() holds — goes through them.  The conditions RECORD and return True (a raising contract would
abort what it observes); every evaluation is counted.  If icontract cannot be imported the same conditions are installed by
a small wrapper of our own.

Judged only in the checks of C11 (aggregator contract) and C14 (transform contract); during the other workloads and during
the repository's own tests (vmon.pytest_plugin) they are recorded as observations.
"""
from __future__ import annotations

import functools

import numpy as np
import torch

STATS = {"aggregator_evaluations": 0, "transform_evaluations": 0, "aggregator_exempt": 0, "transform_exempt": 0}
VIOLATIONS: list[dict] = []
_installed = False
MAX_RECORDED = 50


def _record(kind, where, detail):
    if len(VIOLATIONS) < MAX_RECORDED:
        VIOLATIONS.append({"contract": kind, "where": where, "detail": detail})


# ---- state fingerprints ------------------------------------------------------------------------------------------
def _freeze(v, depth=0):
    if isinstance(v, torch.Tensor):
        t = v.detach()
        return ("T", tuple(t.shape), str(t.dtype), t.cpu().contiguous().view(-1).tolist() if t.numel() <= 4096 else float(t.double().sum()))
    if isinstance(v, np.ndarray):
        return ("A", v.shape, str(v.dtype), v.tobytes() if v.size <= 4096 else float(v.sum()))
    if isinstance(v, (int, float, str, bool, type(None), np.integer, np.floating)):
        return ("V", repr(v))
    if isinstance(v, (list, tuple)) and depth < 3:
        return ("L", tuple(_freeze(x, depth + 1) for x in v))
    if isinstance(v, dict) and depth < 3:
        return ("D", tuple((repr(k), _freeze(x, depth + 1)) for k, x in v.items()))
    return ("O", type(v).__name__)  # opaque (callables, solver objects): identity of type only


_SKIP = ("_forward_hooks", "_forward_pre_hooks", "_backward_hooks", "_backward_pre_hooks", "_state_dict_hooks", "_load_state_dict_pre_hooks",
         "_state_dict_pre_hooks", "_load_state_dict_post_hooks", "_forward_hooks_with_kwargs", "_forward_hooks_always_called",
         "_forward_pre_hooks_with_kwargs", "_modules", "_non_persistent_buffers_set", "_is_full_backward_hook", "_backward_hooks_with_kwargs")


def module_state(mod: torch.nn.Module):
    out = []
    for name, sub in mod.named_modules():
        for k, v in vars(sub).items():
            if k in _SKIP:
                continue
            out.append((name, k, _freeze(v)))
    return tuple(out)


def _is_subject_aggregator(self) -> bool:
    cls = type(self)
    return cls.__module__.startswith("torchjd.") and cls.__name__ != "NashMTL"


def _is_subject_transform(self) -> bool:
    return type(self).__module__.startswith("torchjd.")


# ---- condition functions (named, arguments matching the wrapped function's) ----------------------------------------------
def snap_aggregator(self, matrix):
    if not _is_subject_aggregator(self) or not isinstance(matrix, torch.Tensor):
        return None
    return (matrix.detach().clone(), matrix._version, module_state(self))


def aggregator_is_pure_and_well_shaped(self, matrix, result, OLD):
    old = OLD.pre
    if old is None:
        STATS["aggregator_exempt"] += 1
        return True
    STATS["aggregator_evaluations"] += 1
    where = type(self).__name__
    before, version, state = old
    same = before.shape == matrix.shape and bool(((before == matrix) | (before.isnan() & matrix.isnan())).all())
    if not same:
        _record("aggregator_modified_its_input", where, {"shape": list(matrix.shape)})
    if matrix._version != version:
        _record("aggregator_bumped_input_version", where, {"before": version, "after": matrix._version})
    if module_state(self) != state:
        _record("aggregator_state_changed_by_call", where, {})
    if isinstance(result, torch.Tensor) and matrix.ndim == 2:
        if result.ndim != 1 or result.shape[0] != matrix.shape[1]:
            _record("aggregator_result_shape", where, {"result": list(result.shape), "matrix": list(matrix.shape)})
        elif result.dtype != matrix.dtype:
            _record("aggregator_result_dtype", where, {"result": str(result.dtype), "matrix": str(matrix.dtype)})
        elif bool(torch.isfinite(matrix).all()) and not bool(torch.isfinite(result).all()):
            _record("aggregator_result_not_finite_for_finite_input", where, {"matrix": matrix.detach().tolist() if matrix.numel() <= 64 else "large"})
    return True


def snap_transform(self, input):
    if not _is_subject_transform(self):
        return None
    return (tuple((id(k), id(v)) for k, v in input.items()), type(input))


def transform_outputs_declared_keys(self, input, result, OLD):
    old = OLD.pre
    if old is None:
        STATS["transform_exempt"] += 1
        return True
    STATS["transform_evaluations"] += 1
    where = type(self).__name__
    try:
        declared = {id(k) for k in self.output_keys}
        got = {id(k) for k in result.keys()}
        if declared != got:
            _record("transform_result_keys_differ_from_output_keys", where, {"declared": len(declared), "got": len(got)})
    except Exception as e:  # pragma: no cover
        _record("transform_contract_error", where, {"error": repr(e)[:200]})
    if tuple((id(k), id(v)) for k, v in input.items()) != old[0]:
        _record("transform_modified_its_input_dictionary", where, {})
    return True


# ---- installation -----------------------------------------------------------------------------------------------------
def _fallback(func, snap, cond):
    @functools.wraps(func)
    def wrapper(self, arg):
        class _O:
            pass
        old = _O()
        old.pre = snap(self, arg)
        result = func(self, arg)
        cond(self, arg, result, old)
        return result
    return wrapper


def install():
    global _installed
    if _installed:
        return
    _installed = True
    from torchjd.aggregation import Aggregator
    from torchjd.autojac._transform import Transform
    try:
        import icontract

        def agg_call(self, matrix):
            return _orig_agg(self, matrix)

        def tr_call(self, input):
            return _orig_tr(self, input)

        _orig_agg, _orig_tr = Aggregator.__call__, Transform.__call__
        agg_call = functools.wraps(_orig_agg)(agg_call)
        tr_call = functools.wraps(_orig_tr)(tr_call)
        wrapped_agg = icontract.snapshot(snap_aggregator, name="pre")(
            icontract.ensure(aggregator_is_pure_and_well_shaped, error=AssertionError)(agg_call))
        wrapped_tr = icontract.snapshot(snap_transform, name="pre")(
            icontract.ensure(transform_outputs_declared_keys, error=AssertionError)(tr_call))
        STATS["engine"] = "icontract " + getattr(icontract, "__version__", "")
    except Exception as e:
        wrapped_agg = _fallback(Aggregator.__call__, snap_aggregator, aggregator_is_pure_and_well_shaped)
        wrapped_tr = _fallback(Transform.__call__, snap_transform, transform_outputs_declared_keys)
        STATS["engine"] = f"built-in wrapper ({type(e).__name__})"
    Aggregator.__call__ = wrapped_agg
    Transform.__call__ = wrapped_tr


def flush(ctx, prop: str):
    """Moves what the contracts observed during a shard into its record."""
    ctx.count("contract_evaluations_aggregator", STATS["aggregator_evaluations"])
    ctx.count("contract_evaluations_transform", STATS["transform_evaluations"])
    ctx.notes["contract_engine"] = STATS.get("engine", "?")
    for v in VIOLATIONS:
        is_agg = v["contract"].startswith("aggregator")
        if (prop == "C11" and is_agg) or (prop == "C14" and not is_agg):
            ctx.violation("contract:" + v["contract"], {"aggregator_or_transform": v["where"]}, v["detail"])
        else:
            ctx.count("obs_contract_violation:" + v["contract"])
    VIOLATIONS.clear()
    STATS["aggregator_evaluations"] = 0
    STATS["transform_evaluations"] = 0
