"""vmon — runtime monitors for TorchJD/torchjd (properties C01..C20).

Run with /venv/bin/python and PYTHONPATH=/repo/src:/verif (the `check` script sets both).
Third-party harness libraries (icontract, jsonschema) live in /verif/.deps, appended at the END of
sys.path so that they can never shadow a package of the repository's own environment.
"""
import os
import sys

ROOT = os.path.dirname(os.path.dirname(os.path.abspath(__file__)))
_DEPS = os.path.join(ROOT, ".deps")
if os.path.isdir(_DEPS) and _DEPS not in sys.path:
    sys.path.append(_DEPS)

REPO = os.environ.get("VERIF_REPO", "/repo")
REPO_SRC = os.path.join(REPO, "src")
