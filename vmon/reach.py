"""Line reach of the workload inside the repository's source (sys.monitoring, Python 3.12+).

A LINE callback is installed on every code object of the torchjd modules only; it records (file, line) and returns DISABLE,
so each line location costs one callback in the life of the process.  The evidence then says which lines of the files a
property is anchored in were actually executed under its workload, and which were not.
"""
from __future__ import annotations

import os
import sys
import types

from . import REPO_SRC

EXECUTED: dict[str, set[int]] = {}
EXECUTABLE: dict[str, set[int]] = {}
_TOOL = None


def _codes(code, seen):
    if id(code) in seen:
        return
    seen.add(id(code))
    yield code
    for c in code.co_consts:
        if isinstance(c, types.CodeType):
            yield from _codes(c, seen)


def install():
    global _TOOL
    mon = getattr(sys, "monitoring", None)
    if mon is None or _TOOL is not None:
        return
    for tool in (3, 4, 2):
        try:
            mon.use_tool_id(tool, "vmon-reach")
            _TOOL = tool
            break
        except ValueError:
            continue
    if _TOOL is None:
        return
    root = os.path.realpath(REPO_SRC) + os.sep

    def on_line(code, line):
        EXECUTED.setdefault(code.co_filename, set()).add(line)
        return mon.DISABLE

    mon.register_callback(_TOOL, mon.events.LINE, on_line)
    seen = set()
    for name, mod in list(sys.modules.items()):
        f = getattr(mod, "__file__", None)
        if not f or not os.path.realpath(f).startswith(root) or not f.endswith(".py"):
            continue
        try:
            with open(f) as fh:
                top = compile(fh.read(), f, "exec")
        except Exception:
            continue
        # executable = lines of FUNCTION bodies (module level and class bodies ran at import time, before monitoring started)
        lines = set()

        def walk(code, in_function):
            for c in code.co_consts:
                if isinstance(c, types.CodeType):
                    is_class_body = c.co_name not in ("<lambda>", "<listcomp>", "<genexpr>", "<dictcomp>", "<setcomp>") and not (c.co_flags & 0x2) and not in_function
                    # CO_NEWLOCALS (0x2) is set for functions, not for class bodies
                    fn = bool(c.co_flags & 0x2) or in_function
                    if fn:
                        first = c.co_firstlineno
                        lines.update(ln for _, _, ln in c.co_lines() if ln and ln != first)
                    walk(c, fn)
        walk(top, False)
        EXECUTABLE[f] = lines
        # the live code objects: functions and methods reachable from the module namespace
        stack = list(vars(mod).values())
        while stack:
            obj = stack.pop()
            fn = getattr(obj, "__func__", obj)
            code = getattr(fn, "__code__", None)
            if isinstance(code, types.CodeType) and code.co_filename == f:
                for c in _codes(code, seen):
                    try:
                        mon.set_local_events(_TOOL, c, mon.events.LINE)
                    except Exception:
                        pass
            elif isinstance(obj, type) and getattr(obj, "__module__", None) == name:
                for v in vars(obj).values():
                    if isinstance(v, property):
                        stack.extend([v.fget, v.fset, v.fdel])
                    elif isinstance(v, (staticmethod, classmethod)):
                        stack.append(v.__func__)
                    else:
                        stack.append(v)


def dump() -> dict:
    root = os.path.realpath(REPO_SRC) + os.sep
    out = {}
    for f, lines in EXECUTED.items():
        rf = os.path.realpath(f)
        if rf.startswith(root):
            out["src/" + rf[len(root):]] = sorted(lines)
    return out


def executable() -> dict:
    root = os.path.realpath(REPO_SRC) + os.sep
    return {"src/" + os.path.realpath(f)[len(root):]: sorted(l) for f, l in EXECUTABLE.items()}
