"""./check Cxx [--tier quick|thorough] [--replay FILE]"""
import argparse
import os
import sys


def main():
    ap = argparse.ArgumentParser()
    ap.add_argument("prop")
    ap.add_argument("--tier", default=os.environ.get("VERIF_TIER", "quick"), choices=["quick", "thorough"])
    ap.add_argument("--replay")
    a = ap.parse_args()
    from . import core
    if a.replay:
        sys.exit(core.run_replay(a.prop, a.replay))
    seed = int(os.environ.get("VERIF_SEED", "0") or 0)
    sys.exit(core.run_property(a.prop, a.tier, seed))


if __name__ == "__main__":
    main()
