"""RecordingAggregator: a user-level Aggregator subclass that records the matrix it is given and the very tensor it
returns, then delegates.  The aggregator is a user-supplied object, so this is observation at the public boundary."""
import torch
from torchjd.aggregation import Aggregator


class RecordingAggregator(Aggregator):
    def __init__(self, inner):
        super().__init__()
        self.inner = inner
        self.calls = []  # (matrix clone, returned tensor object, clone of returned tensor)

    def forward(self, matrix: torch.Tensor) -> torch.Tensor:
        seen = matrix.detach().clone()
        out = self.inner(matrix)
        self.calls.append((seen, out, out.detach().clone()))
        return out

    def __repr__(self):
        return repr(self.inner)

    def __str__(self):
        return str(self.inner)
