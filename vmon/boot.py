"""Process boot: torch first, boundary recorders second, torchjd (from the repository's working tree) last."""
import os
import sys

from . import REPO_SRC

_booted = False


class NotFromRepo(RuntimeError):
    pass


def boot():
    global _booted
    if _booted:
        return
    import faulthandler
    faulthandler.enable()
    if REPO_SRC not in sys.path:
        sys.path.insert(0, REPO_SRC)
    import torch
    torch.set_num_threads(1)
    from . import boundary
    boundary.install()
    import torchjd
    here = os.path.realpath(torchjd.__file__)
    if not here.startswith(os.path.realpath(REPO_SRC) + os.sep):
        raise NotFromRepo(f"torchjd imported from {here}, not from {REPO_SRC}")
    if os.environ.get("TORCHJD_VERIF", "1") == "1":
        from . import contracts
        contracts.install()
    try:
        from . import reach
        reach.install()
    except Exception:
        pass
    _booted = True
