"""C14 — Transform pipelines are key-typed: ill-formed ones cannot be built or run (DESIGN §4 C14).

Reference model: `model(term)` — (required keys, output keys, dictionary-type map) or ill-formed, by structural recursion.
Terms are JSON: ["Init", S] ["Select", K, R] ["Diag", S] ["Acc", S] ["Comp", outer, inner] ["Conj", [t..]] ["Stack", [t..]]
with key sets as bit masks over a universe of 3 key tensors of shapes (), (2,), (2,3).
"""
from __future__ import annotations

import itertools

import numpy as np
import torch

from ..core import fingerprint
from ._common import run_cases, shard_rng, split_shards

ID = "C14"
LEVEL = "exploration"
RULE = ("universe of 3 keys; ALL atoms (88, of which 37 ill-formed Select pairs) and ALL Composition / Conjunction / Stack of two "
        "constructible atoms (depth <= 1, exhaustive); depth 2 and 3: every binary combination of one representative per signature "
        "class (required, output, dictionary-type map) of the previous depth (quick: a seeded sample; thorough: all of depth 2, sample of "
        "depth 3), plus seeded random full terms; per term: constructibility vs model, required/output keys, application to all 8 key "
        "subsets, output keys and dictionary type, associativity / commutativity variants; dictionary immutability and shape checks for "
        "the five types; non-trivial = a composite term (depth >= 1); distinct = distinct terms")
EXHAUSTIVE_NOTE = {"quick": "depth <= 1 terms enumerated completely (88 atoms + 3 x 51^2 binary composites); dictionary checks complete",
                   "thorough": "depth <= 1 complete; depth 2 complete over signature-class representatives; dictionary checks complete"}
ASSUMPTIONS = ["type-ill-formed but key-well-formed terms (e.g. Diagonalize fed with Jacobians) are only judged for construction and "
               "key checks: the statement is about keys"]
# dictionary types as the model sees them; Jacobians carry their number of rows (all values of a Jacobians dictionary
# must have the same first dimension): Diagonalize(S) yields numel(S) rows, Stack of n members yields n rows
NUMEL = [1, 2, 6]
TYPES = ["E", "G", "T"] + [f"J:{m}" for m in (0, 1, 2, 3, 6, 7, 8, 9)]
SHAPES_U = [(), (2,), (2, 3)]
FULL = 7


def exhaustive(tier):
    return True


# ------------------------------------------------------------------------------------------------ model
def lca(a, b):
    if a is None or b is None:
        return None
    if a == b:
        return a
    if a == "E":
        return b
    if b == "E":
        return a
    if a == "J:0":  # Jacobians without any key: no row constraint
        return b if b.startswith("J:") else "T"
    if b == "J:0":
        return a if a.startswith("J:") else "T"
    if a.startswith("J:") and b.startswith("J:"):
        return None  # Jacobians with different numbers of rows cannot be united: not judged (value-level, not key-level)
    return "T"


def numel(mask):
    return sum(NUMEL[i] for i in range(3) if mask >> i & 1)


def model(term):
    """None if ill-formed, else (req, out, ty) with ty: dict in_type -> out_type or None (not judged)."""
    op = term[0]
    if op == "Init":
        return (0, term[1], {t: "G" for t in TYPES})
    if op == "Select":
        K, R = term[1], term[2]
        if K & ~R:
            return None
        return (R, K, {t: t for t in TYPES})
    if op == "Diag":
        S = term[1]
        return (S, S, {t: (f"J:{numel(S)}" if t == "G" and S else None) for t in TYPES})
    if op == "Acc":
        S = term[1]
        return (S, 0, {t: ("E" if t == "G" or (t == "E" and not S) else None) for t in TYPES})
    if op == "Comp":
        o, i = model(term[1]), model(term[2])
        if o is None or i is None or o[0] != i[1]:
            return None
        return (i[0], o[1], {t: (o[2].get(i[2][t]) if i[2][t] is not None else None) for t in TYPES})
    if op in ("Conj", "Stack"):
        ms = [model(t) for t in term[1]]
        if any(m is None for m in ms):
            return None
        req = 0
        for m in ms:
            req |= m[0]
        if any(m[0] != req for m in ms):
            return None
        out = 0
        for m in ms:
            if op == "Conj" and out & m[1]:
                return None
            out |= m[1]
        ty = {}
        for t in TYPES:
            if any(m[2][t] is None for m in ms):
                ty[t] = None
            elif op == "Conj":
                acc = "E"
                for m in ms:
                    acc = lca(acc, m[2][t])
                ty[t] = acc
            else:
                ok = all(m[2][t] in ("G", "E") and (m[2][t] == "G" or m[1] == 0) for m in ms)
                ty[t] = ((f"J:{len(ms)}" if out else "J:0") if f"J:{len(ms)}" in TYPES else None) if ok else None
        return (req, out, ty)
    raise KeyError(op)


def signature(term):
    m = model(term)
    if m is None:
        return None
    return (m[0], m[1], tuple(m[2][t] for t in TYPES))


def depth(term):
    if term[0] in ("Init", "Select", "Diag", "Acc"):
        return 0
    if term[0] == "Comp":
        return 1 + max(depth(term[1]), depth(term[2]))
    return 1 + max([depth(t) for t in term[1]] + [0])


# ------------------------------------------------------------------------------------------------ real side
class World:
    def __init__(self):
        import torchjd.autojac._transform as tr
        self.tr = tr
        self.keys = [torch.tensor(np.arange(1, int(np.prod(s)) + 1, dtype=np.float64).reshape(s) * (i + 1) / 7.0, requires_grad=True)
                     for i, s in enumerate(SHAPES_U)]
        self.typename = {tr.EmptyTensorDict: "E", tr.Gradients: "G", tr.Jacobians: "J", tr.GradientVectors: "GV", tr.JacobianMatrices: "JM",
                         tr.TensorDict: "T"}

    def kset(self, mask):
        """The key collection handed to a constructor (`Iterable[Tensor]`): a list, a tuple, a dict view or a ONE-SHOT iterator, in turn."""
        ks = [self.keys[i] for i in range(3) if mask >> i & 1]
        self._kc = getattr(self, "_kc", 0) + 1
        kind = self._kc % 4
        if kind == 1:
            return tuple(ks)
        if kind == 2:
            return iter(ks)
        if kind == 3:
            return dict.fromkeys(ks).keys()
        return ks

    def mask(self, keyset):
        m = 0
        for k in keyset:
            for i, kk in enumerate(self.keys):
                if k is kk:
                    m |= 1 << i
        return m

    def build(self, term):
        tr = self.tr
        op = term[0]
        if op == "Init":
            return tr.Init(self.kset(term[1]))
        if op == "Select":
            return tr.Select(self.kset(term[1]), self.kset(term[2]))
        if op == "Diag":
            return tr.Diagonalize(self.kset(term[1]))
        if op == "Acc":
            return tr.Accumulate(self.kset(term[1]))
        if op == "Comp":
            outer, inner = self.build(term[1]), self.build(term[2])
            # the public spelling `outer << inner` (Transform.compose) and the constructor, alternately
            return outer << inner if (hash(repr(term)) & 1) else tr.Composition(outer, inner)
        if op == "Conj":
            members = [self.build(t) for t in term[1]]
            if len(members) == 2 and (hash(repr(term)) & 2):
                return members[0] | members[1]  # Transform.conjunct
            return tr.Conjunction(members)
        if op == "Stack":
            return tr.Stack([self.build(t) for t in term[1]])
        raise KeyError(op)

    def input_dict(self, mask):
        tr = self.tr
        if mask == 0:
            return tr.EmptyTensorDict()
        return tr.Gradients({k: torch.full_like(k, 0.5) + k.detach() for k in self.kset(mask)})

    def reset(self):
        for k in self.keys:
            k.grad = None


def judge_term(term, w: World, ctx, variants=True):
    """(a)-(d) for one term.  Returns (transform or None, output of the well-keyed application or None)."""
    m = model(term)
    try:
        t = w.build(term)
        built, err = True, None
    except ValueError as e:
        t, built, err = None, False, e
    except Exception as e:
        ctx.violation("construction_raised_non_ValueError", term, {"error": repr(e)[:200], "model": None if m is None else [m[0], m[1]]})
        return None, None
    ctx.count("constructibility_checked")
    if built != (m is not None):
        ctx.violation("constructibility_differs_from_model", term, {"built": built, "model_well_formed": m is not None, "error": repr(err)[:200]})
        return None, None
    if m is None:
        ctx.count("ill_formed_rejected")
        return None, None
    req, out, ty = m
    if w.mask(t.required_keys) != req or len(t.required_keys) != bin(req).count("1") or w.mask(t.output_keys) != out or len(t.output_keys) != bin(out).count("1"):
        ctx.violation("declared_keys_differ_from_model", term, {"required": w.mask(t.required_keys), "output": w.mask(t.output_keys), "model": [req, out]})
        return t, None
    ctx.count("declared_keys_checked")
    # (c) wrong key sets must be rejected with ValueError, before anything else happens
    for other in range(8):
        if other == req:
            continue
        w.reset()
        try:
            t(w.input_dict(other))
            ctx.violation("wrong_key_set_accepted", term, {"given_keys": other, "required": req})
            return t, None
        except ValueError:
            ctx.count("wrong_key_set_rejected")
        except Exception as e:
            ctx.violation("wrong_key_set_raised_non_ValueError", term, {"given_keys": other, "required": req, "error": repr(e)[:200]})
            return t, None
        if any(k.grad is not None for k in w.keys):
            ctx.violation("rejected_application_had_side_effects", term, {"given_keys": other})
            return t, None
    # (d) well-keyed, well-typed application
    in_type = "E" if req == 0 else "G"
    exp_type = ty[in_type]
    if exp_type is None:
        ctx.not_judged("type_ill_formed_application")
        return t, None
    w.reset()
    try:
        res = t(w.input_dict(req))
    except Exception as e:
        ctx.violation("well_formed_application_raised", term, {"error": repr(e)[:300]})
        return t, None
    ctx.count("application_checked")
    got_type = w.typename.get(type(res), type(res).__name__)
    if got_type == "J":
        rows = {v.shape[0] for v in res.values()}
        got_type = f"J:{rows.pop()}" if len(rows) == 1 else ("J:?" if rows else exp_type)
    if w.mask(res.keys()) != out or len(res) != bin(out).count("1"):
        ctx.violation("result_keys_differ_from_declared", term, {"keys": w.mask(res.keys()), "declared": out})
    elif got_type != exp_type:
        ctx.violation("result_dictionary_type", term, {"type": got_type, "expected_least_common_ancestor": exp_type})
    else:
        ctx.count(f"type_seen:{got_type.split(':')[0]}")
    return t, res


def same_result(a, b):
    if a is None or b is None:
        return a is None and b is None
    if type(a) is not type(b) or set(map(id, a.keys())) != set(map(id, b.keys())):
        return False
    return all(torch.equal(a[k], b[k]) for k in a.keys())


def judge_algebra(a, b, c, w, ctx):
    """(e) associativity of composition, commutativity / associativity of conjunction on three constructible terms."""
    def outcome(term):
        m = model(term)
        try:
            t = w.build(term)
        except ValueError:
            return ("ill", None, None)
        if m is None:
            return ("built_but_model_ill", None, None)
        req, out, ty = m
        res = None
        if ty["E" if req == 0 else "G"] is not None:
            w.reset()
            try:
                res = t(w.input_dict(req))
            except Exception as e:
                return ("raised", repr(e)[:100], None)
        return ("ok", (w.mask(t.required_keys), w.mask(t.output_keys)), res)

    groups = [
        ("composition_associativity", [["Comp", ["Comp", a, b], c], ["Comp", a, ["Comp", b, c]]]),
        ("conjunction_commutativity", [["Conj", [a, b]], ["Conj", [b, a]]]),
        ("conjunction_associativity", [["Conj", [["Conj", [a, b]], c]], ["Conj", [a, ["Conj", [b, c]]]], ["Conj", [a, b, c]]]),
    ]
    for name, variants in groups:
        outs = []
        for v in variants:
            try:
                outs.append(outcome(v))
            except ValueError:
                outs.append(("ill", None, None))  # a sub-term is ill-formed
        first = outs[0]
        for v, o in zip(variants[1:], outs[1:]):
            both_judged = first[2] is not None and o[2] is not None
            if o[0] != first[0] or o[1] != first[1] or (first[0] == "ok" and both_judged and not same_result(first[2], o[2])):
                ctx.violation(name + "_broken", [variants[0], v], {"first": [first[0], first[1]], "other": [o[0], o[1]]})
                return
        ctx.count("algebra_checked")
        if first[0] == "ok":
            ctx.count("algebra_checked_constructible")


# ------------------------------------------------------------------------------------------------ enumeration
def atoms():
    out = [["Init", s] for s in range(8)] + [["Diag", s] for s in range(8)] + [["Acc", s] for s in range(8)]
    out += [["Select", k, r] for k in range(8) for r in range(8)]
    return out


def binaries(pool_a, pool_b):
    for a in pool_a:
        for b in pool_b:
            yield ["Comp", a, b]
            yield ["Conj", [a, b]]
            yield ["Stack", [a, b]]


def representatives(terms):
    reps = {}
    for t in terms:
        s = signature(t)
        if s is not None and s not in reps:
            reps[s] = t
    return list(reps.values())


_CACHE = {}


def reps_depth(d):
    if d in _CACHE:
        return _CACHE[d]
    if d == 0:
        r = representatives(atoms())
    else:
        prev = reps_depth(d - 1)
        r = representatives(list(prev) + list(binaries(prev, prev)))
    _CACHE[d] = r
    return r


def shards(tier, seed):
    n = 8
    out = [{"kind": "atoms"}]
    out += [{"kind": "depth1", "part": i, "parts": n} for i in range(n)]
    out += [{"kind": "depth2", "part": i, "parts": n, "sample": 4000 if tier == "quick" else None} for i in range(n)]
    out += [{"kind": "depth3", "part": i, "parts": 4, "sample": 1500 if tier == "quick" else 90000} for i in range(4)]
    out += split_shards("random", 5000 if tier == "quick" else 480000, 4 if tier == "quick" else 12)
    out += [{"kind": "dicts"}]
    out += split_shards("algebra", 1500 if tier == "quick" else 120000, 2 if tier == "quick" else 6)
    if tier == "thorough":
        out.append({"kind": "repo_tests_under_contracts"})
    return out


def requirements(tier):
    return {"constructibility_checked": 10000, "ill_formed_rejected": 3000, "declared_keys_checked": 2000, "wrong_key_set_rejected": 10000,
            "application_checked": 1000, "algebra_checked": 1000, "algebra_checked_constructible": 50, "dict_mutator_rejected": 35,
            "dict_shape_contradiction_rejected": 100, "dict_valid_shape_accepted": 20, "dict_rewrap_checked": 40, "type_seen:G": 50, "type_seen:J": 50, "type_seen:E": 50,
            "type_seen:T": 20, "atoms_enumerated": 88, "depth1_enumerated": 7803, **({"repo_tests_contract_evaluations": 1000} if tier == "thorough" else {})}


def rand_term(rng, d):
    if d == 0 or rng.random() < 0.25:
        a = atoms()
        # bias towards constructible, composable atoms
        t = a[int(rng.integers(len(a)))]
        return t
    r = rng.random()
    if r < 0.45:
        return ["Comp", rand_term(rng, d - 1), rand_term(rng, d - 1)]
    k = int(rng.integers(0, 4))  # also the empty and the one-member conjunction / stack
    return ["Conj" if r < 0.75 else "Stack", [rand_term(rng, d - 1) for _ in range(k)]]


def guided_term(rng, d):
    """Random term built bottom-up from signature-class representatives so that well-formed deep terms are frequent."""
    pool = reps_depth(min(d, 1))
    by_out = {}
    for t in pool:
        by_out.setdefault(signature(t)[1], []).append(t)
    a = pool[int(rng.integers(len(pool)))]
    for _ in range(d):
        sa = signature(a)
        if sa is None:
            break
        r = rng.random()
        if r < 0.5 and sa[0] in by_out:
            inner = by_out[sa[0]][int(rng.integers(len(by_out[sa[0]])))]
            a = ["Comp", a, inner]
        elif r < 0.8:
            same_req = [t for t in pool if signature(t)[0] == sa[0] and not (signature(t)[1] & sa[1])]
            if same_req:
                a = ["Conj", [a, same_req[int(rng.integers(len(same_req)))]]]
        else:
            same_req = [t for t in pool if signature(t)[0] == sa[0]]
            a = ["Stack", [a, same_req[int(rng.integers(len(same_req)))]]]
    return a


def run_shard(shard, ctx):
    w = World()
    rng = shard_rng(ctx.seed, ID, ctx.shard_index)
    kind = shard["kind"]

    def do(term):
        judge_term(term, w, ctx)
        d = depth(term)
        ctx.evaluated(fingerprint(term), nontrivial=d >= 1)
        ctx.klass(f"depth={d}")
        if d >= 1 and model(term) is not None and rng.random() < 0.01:
            ctx.sample({"term": term, "model": {"required": model(term)[0], "output": model(term)[1]}})

    if kind == "atoms":
        for t in atoms():
            do(t)
            ctx.count("atoms_enumerated")
        for grp in ("Conj", "Stack"):
            do([grp, []])
            for t in atoms():
                do([grp, [t]])
                ctx.count("single_member_groups_enumerated")
    elif kind == "depth1":
        good = [t for t in atoms() if model(t) is not None]
        for i, t in enumerate(binaries(good, good)):
            if i % shard["parts"] == shard["part"]:
                do(t)
                ctx.count("depth1_enumerated")
    elif kind in ("depth2", "depth3"):
        reps = reps_depth(1 if kind == "depth2" else 2)
        ctx.notes[f"signature_classes_depth<={1 if kind == 'depth2' else 2}"] = len(reps)
        total = 3 * len(reps) ** 2
        if shard["sample"] is None:
            for i, t in enumerate(binaries(reps, reps)):
                if i % shard["parts"] == shard["part"]:
                    do(t)
                    ctx.count(f"{kind}_class_combinations")
        else:
            for _ in range(shard["sample"]):
                a, b = reps[int(rng.integers(len(reps)))], reps[int(rng.integers(len(reps)))]
                r = rng.random()
                t = ["Comp", a, b] if r < 0.4 else ["Conj", [a, b]] if r < 0.7 else ["Stack", [a, b]]
                if rng.random() < 0.15:
                    c = reps[int(rng.integers(len(reps)))]
                    t = ["Conj", [a, b, c]] if rng.random() < 0.5 else ["Stack", [a, b, c]]
                do(t)
                ctx.count(f"{kind}_class_combinations")
    elif kind == "random":
        for i in range(shard["n"]):
            do(rand_term(rng, 3) if i % 2 else guided_term(rng, int(rng.integers(1, 4))))
    elif kind == "algebra":
        pool = reps_depth(1)
        by_out = {}
        for t in pool:
            by_out.setdefault(signature(t)[1], []).append(t)
        for i in range(shard["n"]):
            a = pool[int(rng.integers(len(pool)))]
            if i % 2:
                b, c = pool[int(rng.integers(len(pool)))], pool[int(rng.integers(len(pool)))]
            else:  # composable / conjoinable triples
                sa = signature(a)
                bs = by_out.get(sa[0], pool)
                b = bs[int(rng.integers(len(bs)))]
                cs = by_out.get(signature(b)[0], pool)
                c = cs[int(rng.integers(len(cs)))]
                if i % 4 == 0:
                    same = [t for t in pool if signature(t)[0] == sa[0] and not signature(t)[1] & sa[1]]
                    if len(same) >= 2:
                        b = same[int(rng.integers(len(same)))]
                        c2 = [t for t in same if not signature(t)[1] & signature(b)[1]]
                        if c2:
                            c = c2[int(rng.integers(len(c2)))]
            judge_algebra(a, b, c, w, ctx)
            ctx.evaluated(fingerprint(["alg", a, b, c]), nontrivial=True)
    elif kind == "dicts":
        judge_dicts(w, ctx)
    elif kind == "repo_tests_under_contracts":
        from .C11 import run_repo_tests
        run_repo_tests(ctx, which="transform")


# ------------------------------------------------------------------------------------------------ (f) dictionaries
def judge_dicts(w, ctx):
    tr = w.tr
    key_shapes = [(), (1,), (2,), (2, 3), (1, 2), (3,)]
    val_shapes = [(), (1,), (2,), (3,), (2, 3), (1, 2), (6,), (1, 6), (2, 6), (4, 2, 3), (1, 2, 3), (2, 2), (5,), (5, 2), (5, 1, 2), (5, 3)]
    preds = {
        "Gradients": lambda k, v: v == k,
        "Jacobians": lambda k, v: len(v) >= 1 and v[1:] == k,
        "GradientVectors": lambda k, v: len(v) == 1 and v[0] == int(np.prod(k)),
        "JacobianMatrices": lambda k, v: len(v) == 2 and v[1] == int(np.prod(k)),
    }
    classes = {"Gradients": tr.Gradients, "Jacobians": tr.Jacobians, "GradientVectors": tr.GradientVectors, "JacobianMatrices": tr.JacobianMatrices}
    for name, cls in classes.items():
        for ks in key_shapes:
            for vs in val_shapes:
                k, v = torch.zeros(ks), torch.ones(vs)
                ok = preds[name](ks, vs)
                try:
                    cls({k: v})
                    built = True
                except Exception:
                    built = False
                ctx.evaluated(fingerprint(["dict", name, ks, vs]), nontrivial=True)
                if built != ok:
                    ctx.violation("dictionary_shape_check", ["dict", name], {"type": name, "key_shape": list(ks), "value_shape": list(vs), "built": built, "model_allows": ok})
                else:
                    ctx.count("dict_valid_shape_accepted" if ok else "dict_shape_contradiction_rejected")
        # two values with different first dimensions
        if name in ("Jacobians", "JacobianMatrices"):
            k1, k2 = torch.zeros(2), torch.zeros(3)
            try:
                cls({k1: torch.ones(4, 2), k2: torch.ones(5, 3)})
                ctx.violation("dictionary_shape_check", ["dict", name], {"type": name, "issue": "different first dimensions accepted"})
            except Exception:
                ctx.count("dict_shape_contradiction_rejected")
    # the same shape contradictions when the SOURCE mapping is itself a TensorDict of another (or the unconstrained base) type
    k2 = torch.zeros(2)
    sources = {"TensorDict": lambda v: tr.TensorDict({k2: v}), "Jacobians": lambda v: tr.Jacobians({k2: v}), "Gradients": lambda v: tr.Gradients({k2: v}),
               "GradientVectors": lambda v: tr.GradientVectors({k2: v}), "JacobianMatrices": lambda v: tr.JacobianMatrices({k2: v})}
    for name, cls in classes.items():
        for sname, mk in sources.items():
            for vs in [(2,), (3, 2), (1, 2), (2, 2), (5,), (4, 3)]:
                try:
                    src = mk(torch.ones(vs))
                except Exception:
                    continue  # the source itself is ill-typed
                ok = preds[name]((2,), vs)
                try:
                    cls(src)
                    built = True
                except Exception:
                    built = False
                ctx.evaluated(fingerprint(["rewrap", name, sname, vs]), nontrivial=True)
                if built != ok:
                    ctx.violation("dictionary_shape_check", ["dict", name], {"type": name, "built_from": sname, "value_shape": list(vs), "built": built, "model_allows": ok})
                else:
                    ctx.count("dict_rewrap_checked")
    try:
        tr.EmptyTensorDict({torch.zeros(2): torch.zeros(2)})
        ctx.violation("dictionary_shape_check", ["dict", "EmptyTensorDict"], {"issue": "non-empty EmptyTensorDict accepted"})
    except Exception:
        ctx.count("dict_shape_contradiction_rejected")
    # immutability
    k = torch.zeros(2)
    samples = {"Gradients": lambda: tr.Gradients({k: torch.ones(2)}), "Jacobians": lambda: tr.Jacobians({k: torch.ones(3, 2)}),
               "GradientVectors": lambda: tr.GradientVectors({k: torch.ones(2)}), "JacobianMatrices": lambda: tr.JacobianMatrices({k: torch.ones(3, 2)}),
               "EmptyTensorDict": lambda: tr.EmptyTensorDict()}
    muts = {"__setitem__": lambda d: d.__setitem__(k, torch.ones(2)), "__delitem__": lambda d: d.__delitem__(k), "update": lambda d: d.update({k: torch.ones(2)}),
            "pop": lambda d: d.pop(k), "popitem": lambda d: d.popitem(), "clear": lambda d: d.clear(), "setdefault": lambda d: d.setdefault(k, torch.ones(2))}
    for name, mk in samples.items():
        for mname, mut in muts.items():
            d = mk()
            n0 = len(d)
            try:
                mut(d)
                ctx.violation("dictionary_mutation_accepted", ["dict", name, mname], {"type": name, "mutator": mname})
            except TypeError:
                ctx.count("dict_mutator_rejected")
            except Exception as e:
                ctx.violation("dictionary_mutation_raised_non_TypeError", ["dict", name, mname], {"type": name, "mutator": mname, "error": repr(e)[:100]})
            if len(d) != n0:
                ctx.violation("dictionary_mutated", ["dict", name, mname], {"type": name, "mutator": mname})
            ctx.evaluated(fingerprint(["mut", name, mname]), nontrivial=True)
    ctx.sample({"dictionary_checks": "5 types x 7 mutators; 4 types x 6 key shapes x 16 value shapes"})


def replay(case, ctx):
    w = World()
    if case and case[0] == "dict":
        judge_dicts(w, ctx)
    elif isinstance(case[0], list):
        for t in case:
            judge_term(t, w, ctx)
    else:
        judge_term(case, w, ctx)
