"""Helpers shared by the property modules."""
from __future__ import annotations

import traceback

import numpy as np


def shard_rng(seed: int, prop: str, index: int):
    return np.random.default_rng([int(seed), int(prop[1:]), int(index)])


def split_shards(kind: str, total: int, n_shards: int, **extra) -> list[dict]:
    """`total` cases of `kind` spread over `n_shards` shards."""
    n_shards = max(1, min(n_shards, total))
    base, rem = divmod(total, n_shards)
    return [dict(kind=kind, n=base + (1 if i < rem else 0), **extra) for i in range(n_shards)]


def run_cases(ctx, rng, n, gen, check, label="case"):
    """Generic loop: harness exceptions are inconclusive (never a verdict), counted per shard."""
    for i in range(n):
        case = None
        try:
            case = gen(rng, i)
            if case is None:
                continue
            check(case, ctx)
        except Exception:
            ctx.inconclusive(f"{label} {i} harness error: {traceback.format_exc()[-1200:]} case={str(case)[:600]}")
            if len(ctx.inconclusive_) >= 5:
                return


def tolist(t):
    return t.detach().cpu().double().reshape(-1).tolist()
