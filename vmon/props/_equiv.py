"""Shared machinery of the metamorphic aggregator properties (C08 C09 C10 C11): aggregator catalogue, float64
well-posedness guards (an input on which the algorithm's own decision threshold is within rounding distance is *not
judged*), seeded / scripted execution of the randomised aggregators."""
from __future__ import annotations

import numpy as np
import torch

from .. import aggs, matrices as M, refmodels as R
from ..boundary import REC
from ._agg import DT, EPS, as64, call, shape_ok, to_t

GRAMIAN_BASED = ["UPGrad", "DualProj", "MGDA", "PCGrad", "CAGrad", "IMTLG", "AlignedMTL", "ConFIG", "Krum", "Mean", "Sum", "Constant", "Random"]
WEIGHTED = GRAMIAN_BASED  # every aggregator documented as weighted (ConFIG included); GradDrop and TrimmedMean are not
DETERMINISTIC = ["UPGrad", "DualProj", "MGDA", "CAGrad", "IMTLG", "AlignedMTL", "ConFIG", "Krum", "Mean", "Sum", "Constant", "TrimmedMean"]
RANDOMISED = ["PCGrad", "Random", "GradDrop"]
ALL = DETERMINISTIC + RANDOMISED
TAU = {"float64": 1e-9, "float32": 1e-4}
TAU_CAGRAD = {"float64": 1e-4, "float32": 5e-3}  # conic solver (CLARABEL default tolerances ~1e-8 on the objective => ~1e-4 on a degenerate minimiser): observed up to 1.5e-5 on duplicated rows
COND_MAX = {"float64": 1e6, "float32": 3e3}


def tau(name, dname, desc=None, J=None):
    """Tolerance in units of the case's scale.  For the pseudo-inverse based IMTL-G / ConFIG the attainable accuracy is eps x the
    condition number of the operator they invert (J J^T, resp. the unit rows): tolerance max(tau, 10 eps kappa)."""
    t = TAU_CAGRAD[dname] if name == "CAGrad" else TAU[dname]
    if desc is not None and J is not None and name in ("IMTLG", "ConFIG"):
        k = kappa(name, J)
        if np.isfinite(k):
            t = max(t, 10 * EPS[dname] * k)  # calibrated: unchanged tree <= 1.2 eps kappa (ConFIG float32, kappa up to 3e3)
            if name == "IMTLG":
                # IMTL-G normalises v = pinv(J J^T) d by its SUM: when the entries of v nearly cancel (guard: |sum v| >= 1e-3 |v|_1) a
                # relative error e in v becomes e |v|_1 / |sum v| in the weights.  Calibrated on the unchanged tree (float32,
                # kappa 151, amplification 382: error 0.031 eps kappa amp in units of s |w|_1): 0.3 eps kappa amp
                G = J @ J.T
                v = np.linalg.pinv(G, rcond=1e-12) @ np.linalg.norm(J, axis=1)
                if abs(v.sum()) > 0:
                    t = max(t, 0.3 * EPS[dname] * k * float(np.abs(v).sum() / abs(v.sum())))
    return t


def kappa(name, J) -> float:
    if name == "IMTLG":
        sv = M.singular_values(J @ J.T)
        sv = sv[sv > 1e-12 * sv[0]] if sv.size and sv[0] > 0 else sv  # conditioning of the part pinv keeps (exact rank deficiency: judged in float64)
    else:
        U = M.unit_rows(J)
        U = U[np.linalg.norm(U, axis=1) > 0]  # (an all-zero row is its own unit row: an exact zero singular value, nothing ambiguous)
        sv = M.singular_values(U) if U.shape[0] else np.zeros(0)
    if sv.size == 0 or sv[-1] == 0:
        return float("inf")
    return float(sv[0] / sv[-1])


def config(rng, name, m, dname, with_pref=None):
    """A random public-constructor configuration of aggregator `name` for matrices with m rows (None if impossible)."""
    with_pref = bool(rng.random() < 0.5) if with_pref is None else with_pref
    pref = None
    if with_pref:
        # all non-negative preference vectors: dense, with exact zeros (at any position), one-hot, spread over 6 decades
        from ._agg import pref_vector
        pref = pref_vector(rng, m, kind=["random", "random", "zeros", "zeros", "onehot", "spread"][int(rng.integers(6))])
    if name in ("UPGrad", "DualProj"):
        d = {"name": name, "pref": pref}
        if pref is not None and rng.random() < 0.25:
            d["pref_dtype"] = "float32" if dname == "float64" else "float64"  # preference vector given in another dtype than the matrix
        return d
    if name in ("AlignedMTL", "ConFIG"):
        return {"name": name, "pref": pref}
    if name == "MGDA":
        return {"name": name} if rng.random() < 0.6 else {"name": name, "epsilon": [1e-3, 1e-6, 0.0][int(rng.integers(3))], "max_iters": [100, 300][int(rng.integers(2))]}
    if name == "CAGrad":
        return {"name": name, "c": float(np.round(rng.uniform(0.2, 2.0), 2))}
    if name == "Krum":
        if m < 3:
            return None
        f = int(rng.integers(0, m - 2))
        return {"name": name, "f": f, "k": int(rng.integers(1, m - f))}
    if name == "TrimmedMean":
        b = int(rng.integers(0, (m - 1) // 2 + 1))
        return {"name": name, "b": b}
    if name == "Constant":
        return {"name": name, "weights": [float(x) for x in np.round(rng.uniform(-2, 2, size=m), 3)]}
    if name == "GradDrop":
        return {"name": name, "leak": [float(x) for x in np.round(rng.uniform(0, 1, size=m), 3)] if with_pref else None}
    return {"name": name}


def config_l1(desc) -> float:
    """|pref|_1 (or weights): rounding noise of an aggregator is amplified by the magnitude of its configured per-row vector (a
    preference vector spread over 6 decades multiplies noise on the small rows by the large entries), so errors are measured in
    units of s x max(|w|_1, |pref|_1)."""
    for key in ("pref", "weights"):
        if desc.get(key) is not None:
            return float(sum(abs(x) for x in desc[key]))
    return 0.0


def permute_config(desc, perm):
    """The configuration whose per-row vector (preference / weights / leak) is permuted along with the rows."""
    d = dict(desc)
    for key in ("pref", "weights", "leak"):
        if d.get(key) is not None:
            d[key] = [d[key][i] for i in perm]
    return d


# ------------------------------------------------------------------------------------------------ guards
def guard(desc, J: np.ndarray, dname: str, orders=None):
    """None when aggregator(desc) is well-posed at J (float64 view of the matrix), else the name of the guard that fires."""
    name = desc["name"]
    m, n = J.shape
    s = M.smax(J)
    if not np.isfinite(J).all():
        return "nonfinite"
    if name in ("Mean", "Sum", "Constant", "Random", "TrimmedMean"):
        return None
    if s == 0.0:
        return None if name not in ("Krum",) else None
    if name in ("UPGrad", "DualProj", "CAGrad"):
        ne = desc.get("norm_eps", 1e-4)
        if ne / 2 <= s < 2 * ne:
            return "s_near_norm_eps"
        if s < ne / 2:
            return None if name != "CAGrad" else "cagrad_below_norm_eps"
    G = J @ J.T
    if name == "CAGrad":
        _, rho2 = R.min_norm_point(G) if m <= 8 else (None, None)
        if rho2 is None:
            return "cagrad_m_gt_8"
        if np.sqrt(rho2) < {"float64": 2e-3, "float32": 1e-2}[dname] * s:
            return "cagrad_near_stationary"
        # g_w_norm threshold of the implementation (on the normalised Gramian)
        return None
    if name == "IMTLG":
        # pinv(J J^T) cuts the singular values of the m x m Gramian at m eps sigma_1.  Judged: every singular value is either
        # clearly kept (> 8 x the cut-off, and the kept ones within COND_MAX of each other) or clearly cut (< 1/8 of it).  An
        # EXACTLY rank-deficient Gramian (dependent rows, m > n) has computed null singular values of 0.04 (median) .. 0.33 (max) of
        # the cut-off (measured, 400 random products of factors): below cut / 8 the unchanged float64 code is stable under row
        # permutations (spread <= 6e-10 s); in float32 it is not (spread up to 0.04 s), so float32 rank deficiency is not judged.
        svG = M.singular_values(G)
        cut = m * EPS[dname] * svG[0]
        kept, dropped = svG > 8 * cut, svG < cut / 8
        if not (kept | dropped).all():
            return "imtlg_rank_ambiguous"
        if dropped.any() and dname == "float32":
            return "imtlg_rank_deficient_float32"
        pos = svG[kept]
        if pos[-1] < pos[0] / COND_MAX[dname]:
            return "imtlg_rank_ambiguous"
        d = np.linalg.norm(J, axis=1)
        v = np.linalg.pinv(G, rcond=float(cut / svG[0])) @ d
        # IMTL-G divides v by its sum: not judged when the sum nearly cancels, or when v itself vanishes (d in the null space of a
        # rank-deficient Gramian, e.g. J = [[1], [-1]]: v is pure rounding noise and v / sum(v) is arbitrary)
        if abs(v.sum()) < 1e-3 * max(np.abs(v).sum(), np.abs(d).sum() / svG[0]):
            return "imtlg_weight_sum_near_zero"
        return None
    if name == "ConFIG":
        # all-zero rows (an objective whose gradient vanishes) are their own unit rows: they add exact zero singular values, which
        # are far below pinv's cut-off; the conditioning is that of the non-zero rows
        nz = np.linalg.norm(J, axis=1) > 0
        U = M.unit_rows(J)
        svU = M.singular_values(U[nz])  # singular values of the non-zero unit rows: all must be clear of pinv's cut-off
        if svU[-1] < svU[0] / COND_MAX[dname]:
            return "config_rank_ambiguous"
        w = np.ones(m) if desc.get("pref") is None else np.array(desc["pref"])
        best = np.linalg.pinv(U, rcond=1e-10) @ w
        if np.linalg.norm(best) < 1e-6 * np.linalg.norm(w):
            return "config_direction_near_zero"
        return None
    if name == "AlignedMTL":
        lam = np.linalg.eigvalsh(G)
        tol = lam.max() * m * 1.1920929e-07  # the implementation uses torch.finfo().eps (float32) whatever the dtype
        if ((lam > 0.01 * tol) & (lam < 100 * tol)).any():
            return "alignedmtl_rank_ambiguous"
        kept = lam[lam >= 100 * tol]  # the eigenvalues the algorithm retains
        if dname == "float32" and kept.size and kept.min() / kept.max() < 1e-3:
            return "alignedmtl_ill_conditioned_float32"
        return None
    if name == "Krum":
        if M.krum_gap(J, desc["f"], desc["k"]) < {"float64": 1e-6, "float32": 1e-3}[dname]:
            return "krum_score_tie"
        return None
    if name == "MGDA":
        _, margin = R.mgda_frank_wolfe(G, 100, 1e-3)
        if margin < {"float64": 1e-6, "float32": 1e-3}[dname] * s ** 2:
            return "mgda_argmin_tie"
        return None
    if name == "PCGrad":
        # Every sign decision "does the running vector conflict with row j" must be clear of rounding: the implementation reads
        # the inner product off the Gramian as sum_k G_jk w_k, so its rounding scale is eps x sum_k |G_jk w_k| (cancellation), and
        # a transformed matrix perturbs it by eps |g| |J_j|.  The threshold is RELATIVE TO THE PAIR (it was relative to s^2, which
        # set every conflict between rows much smaller than the largest one aside).
        rel = {"float64": 1e-9, "float32": 1e-3}[dname]
        rn = np.linalg.norm(J, axis=1)

        def walk(i, order):
            w = np.zeros(m)
            w[i] = 1.0
            for j in order:
                if j == i:
                    continue
                ip = float(G[j] @ w)
                mag = max(float(np.abs(G[j]) @ np.abs(w)), float(np.linalg.norm(J.T @ w)) * rn[j])
                if abs(ip) < rel * mag or mag == 0.0:
                    return "pcgrad_inner_product_near_zero"
                if ip < 0:
                    if G[j, j] < 1e-24 * s ** 2:
                        return "pcgrad_tiny_row"
                    w[j] -= ip / G[j, j]
            return None

        if orders is None:
            # draws not observable (permutations drawn through another torch entry point): recorder-free guard over ALL orders
            if (G >= rel * np.outer(rn, rn)).all() and (rn > 0).all():
                return None
            if m > 4:
                return "pcgrad_orders_unknown"
            import itertools
            for i in range(m):
                for perm in itertools.permutations([j for j in range(m) if j != i]):
                    r = walk(i, perm)
                    if r:
                        return r
            return None
        for i in range(m):
            r = walk(i, orders[i])
            if r:
                return r
        return None
    if name == "GradDrop":
        return None  # decided on the recorded draws by the caller (|f(P) - U| margin)
    return None


def config_pinv_rank(J, dname):
    """Number of singular values of the unit rows that torch.linalg.pinv (default rtol = max(m, n) eps: it GROWS WITH THE NUMBER OF
    COLUMNS) keeps; None when one of them is within a factor 4 of the cut-off (rank decision within rounding distance)."""
    U = M.unit_rows(J)
    U = U[np.linalg.norm(U, axis=1) > 0]
    if U.shape[0] == 0:
        return 0
    sv = M.singular_values(U)
    cut = max(J.shape) * EPS[dname]
    ratios = sv / sv[0]
    if ((ratios >= cut / 4) & (ratios <= 4 * cut)).any():
        return None
    return int((ratios > cut).sum())


def krum_selection(desc, J):
    """(reference set of selected rows, largest norm among them): with a score gap certified by guard(), Krum's output is the plain
    average of exactly these rows, so its rounding error is a few eps of the largest SELECTED row - however large the others."""
    sc = M.krum_scores(J, desc["f"])
    sel = sorted(int(i) for i in np.argsort(sc, kind="stable")[:desc["k"]])
    return sel, float(max(np.linalg.norm(J[sel], axis=1).max(), 1e-300))


def graddrop_margin_ok(J, U, dname):
    P = R.graddrop_purity(J)
    ok = np.isnan(P) | (np.abs(P - U) > {"float64": 1e-9, "float32": 1e-4}[dname])
    return bool(ok.all())


# ------------------------------------------------------------------------------------------------ execution
def run(desc, Jt: torch.Tensor, seed=0, script=None):
    """Runs aggregator(desc) on Jt under torch.manual_seed(seed) with the RNG recorder on.

    script: {"rand": [tensors]} forces GradDrop's uniform draws (same draws for a transformed matrix).
    Returns (out float64 array | None, error | None, record dict)."""
    # aggregators without per-row configuration are long-lived instances shared by all the cases of the process (row counts,
    # shapes and scales vary from call to call, as in a training loop); the others are built per call
    per_row = any(desc.get(k) is not None for k in ("pref", "weights", "leak")) or desc.get("hook")
    agg = aggs.make(desc, Jt.dtype) if per_row else aggs.shared(desc, Jt.dtype)
    torch.manual_seed(int(seed))
    _RUNS[0] += 1
    if _RUNS[0] % 4 == 0:
        # every fourth call hands over a matrix that REQUIRES GRAD (differentiable aggregation: the caller wants to differentiate
        # through A): the value of A(J) must not depend on that attribute
        Jt = Jt.detach().clone().requires_grad_(True)
    REC.start()
    if script and script.get("rand") is not None:
        REC.rand_script = [t.clone() for t in script["rand"]]
    out, err, w = call(agg, Jt)
    REC.stop()
    rec = {"randperm": [list(p) for p in REC.randperm_draws], "rand": [t.clone() for t in REC.rand_draws], "randn": [t.clone() for t in REC.randn_draws],
           "underflow": REC.script_underflow, "weights": w}
    if err is None:
        bad = shape_ok(out, Jt)
        if bad:
            return None, ValueError("output " + bad), rec
        return as64(out), None, rec
    return None, err, rec


_RUNS = [0]


def pcgrad_orders(rec, m):
    p = rec["randperm"]
    if len(p) == m and all(len(x) == m for x in p):
        return p
    return None
