"""C19 — NashMTL's state: reset() means fresh, weights are reused as scheduled (DESIGN §4 C19).  History + model."""
from __future__ import annotations

import itertools
import warnings

import numpy as np
import torch

from .. import aggs, matrices as M, refmodels as R
from ..boundary import REC
from ..core import fingerprint
from ._agg import DT, as64, call, shape_ok, to_t
from ._common import run_cases, shard_rng, split_shards

ID = "C19"
LEVEL = "exploration"
RULE = ("histories over the alphabet {M1, M2, reset} (two well-conditioned matrices with 2..5 rows): ALL histories up to length 3 (quick) / 5 "
        "(thorough, 363 histories) x update_weights_every k in 1..4 x max_norm in {0, 0.5, 1, 10}, plus random histories up to length 8; every "
        "call must return; the outputs after the last reset equal those of a newly constructed instance fed the same suffix; the cvxpy solver "
        "is entered during call j (counted from construction / reset) iff j mod k = 0 and the weights of the other calls are the last "
        "recomputed ones; |A(J)| <= max_norm; non-trivial = the history contains a reset after a call, or a reuse call (k >= 2); distinct = "
        "(history, k, max_norm, matrices) sha1")
EXHAUSTIVE_NOTE = {"quick": "all 39 histories of length <= 3 over {M1, M2, reset} for every k in 1..4 and max_norm in {0,0.5,1,10}",
                   "thorough": "all 363 histories of length <= 5 over {M1, M2, reset} for every k in 1..4 and max_norm in {0,0.5,1,10}"}
ASSUMPTIONS = ["weights recovered by least squares (matrices have full row rank)", "ECOS is deterministic (outputs compared to 1e-9)"]
MAXLEN = {"quick": 3, "thorough": 5}
RANDOM = {"quick": 160, "thorough": 12000}
KS = [1, 2, 3, 4]
NORMS = [0.0, 0.5, 1.0, 10.0]


def exhaustive(tier):
    return True


def all_histories(L):
    out = []
    for n in range(1, L + 1):
        out += [list(h) for h in itertools.product(("M1", "M2", "reset"), repeat=n)]
    return out


def shards(tier, seed):
    H = list(range(len(all_histories(MAXLEN[tier]))))
    n = 12 if tier == "quick" else 28
    out = [{"kind": "exhaustive", "hist": H[i::n]} for i in range(n)]
    out += split_shards("random", RANDOM[tier], 4 if tier == "quick" else 12)
    return out


def requirements(tier):
    return {"histories_exhaustive": 39 if tier == "quick" else 363, "calls_returned": 900, "reset_equals_fresh_checked": 200, "schedule_recompute_calls_checked": 500,
            "schedule_reuse_calls_checked": 250, "reuse_weights_direction_checked": 200, "max_norm_checked": 600, "solver_recorder_hits": 1,
            "w_k_ge_2": 300, "w_reset_after_call": 60, "w_max_norm_binding": 100, "rescaling_only_checked": 500}


def make_matrices(rng, dname):
    m = int(rng.integers(2, 6))
    n = int(rng.integers(m, m + 5))
    # independent scales: on a reuse call the old weights applied to a much smaller / larger matrix may or may not exceed max_norm
    return [M.well_conditioned(rng, m, n, cond=float(10 ** rng.uniform(0, 1)), scale=float(10 ** rng.uniform(-2, 2))).tolist() for _ in range(2)], m


def run_history(inst, hist, mats, ctx, case, record_solver=True):
    """Feeds a history to an instance.  Returns per step: None for reset, else (output, solver_calls) or the exception."""
    res = []
    for sym in hist:
        if sym == "reset":
            try:
                inst.reset()
                res.append(None)
            except Exception as e:
                res.append(e)
            continue
        REC.start()
        with warnings.catch_warnings():
            warnings.simplefilter("ignore")
            out, err, _ = call(inst, mats[sym])
        REC.stop()
        if err is not None:
            res.append(err)
            break
        bad = shape_ok(out, mats[sym], finite=False)
        if bad:
            res.append(ValueError("output " + bad))
            break
        res.append((as64(out), REC.solve_calls))
    return res


def check_case(case, ctx):
    dname = case["dtype"]
    mats64 = {k: np.array(v, dtype=np.float64) for k, v in zip(("M1", "M2"), case["matrices"])}
    mats = {k: to_t(v, dname) for k, v in mats64.items()}
    m = mats64["M1"].shape[0]
    k, mn = case["k"], case["max_norm"]
    desc = {"name": "NashMTL", "n_tasks": m, "every": k, "max_norm": mn, "optim_niter": case.get("optim_niter", 20)}
    hist = case["history"]
    inst = aggs.make(desc, DT[dname])
    res = run_history(inst, hist, mats, ctx, case)
    vio = None
    # 1. every call returns
    for i, r in enumerate(res):
        if isinstance(r, Exception):
            vio = ("call_raised", {"step": i, "symbol": hist[i], "error": repr(r)[:300], "update_weights_every": k, "calls_since_reset": _since_reset(hist, i)})
            break
        if r is not None:
            ctx.count("calls_returned")
    # 4. max_norm
    if vio is None and mn > 0:
        for i, r in enumerate(res):
            if r is not None:
                nrm = float(np.linalg.norm(r[0]))
                ctx.count("max_norm_checked")
                if nrm > mn * (1 + 1e-6) * (1 + (1e-5 if dname == "float32" else 0)):
                    vio = ("norm_exceeds_max_norm", {"step": i, "norm": nrm, "max_norm": mn})
                    break
                if nrm > mn * (1 - 1e-4):
                    ctx.count("w_max_norm_binding")
    # 4b. max_norm only rescales the returned vector: a twin instance with max_norm = 0 (no rescaling) fed the same history gives
    #     the unrescaled combinations; every output must be that vector, shrunk to max_norm when longer.  (Sees reused weights
    #     whose MAGNITUDE changed in between, which the direction test below cannot.)
    if vio is None and mn > 0:
        twin_inst = aggs.make({**desc, "max_norm": 0.0}, DT[dname])
        res_t = run_history(twin_inst, hist, mats, ctx, case)
        for i, (r, rt) in enumerate(zip(res, res_t)):
            if r is None or rt is None or isinstance(r, Exception) or isinstance(rt, Exception):
                continue
            tn = float(np.linalg.norm(rt[0]))
            exp = rt[0] if tn <= mn else rt[0] * (mn / tn)
            d = float(np.linalg.norm(r[0] - exp))
            sc = float(np.linalg.norm(exp)) + 1e-300
            ctx.maximum(f"vs_unrescaled_twin_{dname}", d / sc)
            ctx.count("rescaling_only_checked")
            if d > {"float64": 1e-6, "float32": 1e-3}[dname] * sc:
                vio = ("output_is_not_the_rescaled_unrescaled_combination", {"step": i, "symbol": hist[i], "output": r[0].tolist(), "expected": exp.tolist(),
                                                                             "calls_since_reset": _since_reset(hist, i), "update_weights_every": k})
                break
    # 3. schedule
    if vio is None:
        j = 0  # calls since construction / reset
        last_w = None
        any_solver = any(r is not None and r[1] > 0 for r in res if not isinstance(r, Exception))
        if any_solver:
            ctx.count("solver_recorder_hits")
        for i, (sym, r) in enumerate(zip(hist, res)):
            if sym == "reset":
                j, last_w = 0, None
                continue
            out, nsolve = r
            Jm = mats64[sym] if dname == "float64" else as64(mats[sym])
            w = R.lstsq_weights(Jm, out)
            recompute = (j % k == 0)
            if recompute:
                if any_solver:
                    ctx.count("schedule_recompute_calls_checked")
                    if nsolve == 0:
                        vio = ("weights_not_recomputed_when_scheduled", {"step": i, "calls_since_reset": j, "update_weights_every": k})
                        break
                last_w = w
            else:
                if any_solver:
                    ctx.count("schedule_reuse_calls_checked")
                    if nsolve > 0:
                        vio = ("weights_recomputed_although_not_scheduled", {"step": i, "calls_since_reset": j, "update_weights_every": k, "solver_calls": nsolve})
                        break
                # recorder-free form: the weights are the last recomputed ones (up to the max_norm rescaling)
                if last_w is not None and np.linalg.norm(w) > 0 and np.linalg.norm(last_w) > 0:
                    cos = float(w @ last_w / (np.linalg.norm(w) * np.linalg.norm(last_w)))
                    ctx.count("reuse_weights_direction_checked")
                    ctx.maximum("reuse_direction_defect", 1 - cos)
                    tol = 1e-6 if dname == "float64" else 1e-3
                    if 1 - cos > tol:
                        vio = ("reused_weights_differ_from_the_last_recomputed_ones", {"step": i, "weights": w.tolist(), "last_recomputed": last_w.tolist()})
                        break
                    if mn == 0 and np.abs(w - last_w).max() > tol * np.abs(last_w).max():
                        vio = ("reused_weights_differ_from_the_last_recomputed_ones", {"step": i, "weights": w.tolist(), "last_recomputed": last_w.tolist()})
                        break
            j += 1
    # 2. reset == fresh: the suffix after the last reset, replayed on a newly constructed instance
    if vio is None and "reset" in hist:
        last = len(hist) - 1 - hist[::-1].index("reset")
        suffix = hist[last + 1:]
        if suffix:
            fresh = aggs.make(desc, DT[dname])
            res2 = run_history(fresh, suffix, mats, ctx, case)
            for i, (a, b) in enumerate(zip(res[last + 1:], res2)):
                if isinstance(b, Exception):
                    vio = ("call_raised", {"step": i, "symbol": suffix[i], "error": repr(b)[:300], "on": "fresh instance", "update_weights_every": k,
                                           "calls_since_reset": i})
                    break
                d = float(np.abs(a[0] - b[0]).max())
                sc = float(np.abs(b[0]).max()) + 1e-300
                ctx.maximum("reset_vs_fresh", d / sc)
                ctx.count("reset_equals_fresh_checked")
                if d > 1e-9 * sc:
                    vio = ("after_reset_differs_from_a_fresh_instance", {"step_after_reset": i, "after_reset": a[0].tolist(), "fresh": b[0].tolist()})
                    break
            if any(s != "reset" for s in hist[:last]):
                ctx.count("w_reset_after_call")
    if vio:
        ctx.violation(vio[0], case, vio[1])
    if k >= 2:
        ctx.count("w_k_ge_2")
    ncalls = sum(1 for s in hist if s != "reset")
    nontrivial = (k >= 2 and _max_run(hist) >= 2) or ("reset" in hist and hist.index("reset") > 0)
    ctx.evaluated(fingerprint(case), nontrivial=nontrivial, n=1)
    ctx.sample({"history": hist, "update_weights_every": k, "max_norm": mn, "rows": m, "dtype": dname})


def _since_reset(hist, i):
    j = 0
    for s in hist[:i]:
        j = 0 if s == "reset" else j + 1
    return j


def _max_run(hist):
    best = cur = 0
    for s in hist:
        cur = 0 if s == "reset" else cur + 1
        best = max(best, cur)
    return best


def run_shard(shard, ctx):
    rng = shard_rng(ctx.seed, ID, ctx.shard_index)
    if shard["kind"] == "exhaustive":
        H = all_histories(MAXLEN[ctx.tier])
        for hi in shard["hist"]:
            for k in KS:
                for mn in NORMS:
                    def gen(r, i):
                        dname = "float32" if r.random() < 0.2 else "float64"
                        mats, m = make_matrices(r, dname)
                        return {"history": H[hi], "k": k, "max_norm": mn, "matrices": mats, "dtype": dname, "optim_niter": [20, 20, 5, 50, 1, 2, 3][int(r.integers(7))]}
                    run_cases(ctx, rng, 1, gen, check_case)
            ctx.count("histories_exhaustive")
    else:
        def gen(r, i):
            dname = "float32" if r.random() < 0.2 else "float64"
            mats, m = make_matrices(r, dname)
            n = int(r.integers(4, 9))
            hist = [("M1", "M2", "reset")[int(x)] for x in r.choice(3, size=n, p=[0.42, 0.42, 0.16])]
            return {"history": hist, "k": int(r.integers(1, 5)), "max_norm": NORMS[int(r.integers(4))], "matrices": mats, "dtype": dname, "optim_niter": [20, 20, 5, 50, 1, 2, 3][int(r.integers(7))]}
        run_cases(ctx, rng, shard["n"], gen, check_case)


def replay(case, ctx):
    check_case(case, ctx)


def reuse_branch_returns_numpy(v):
    """F1: the first call that reuses the weights (update_weights_every > 1, call index not a multiple of k) raises TypeError."""
    d = v["detail"]
    return (v["kind"] == "call_raised" and "TypeError" in d.get("error", "") and d.get("update_weights_every", 1) > 1
            and d.get("calls_since_reset", 0) % d["update_weights_every"] != 0)


CLASSIFIERS = {"reuse_branch_returns_numpy": reuse_branch_returns_numpy}


def waivers(counters):
    if counters.get("solver_recorder_hits", 0) == 0:  # solver reached through another API: the reuse-direction oracle decides
        return {"solver_recorder_hits", "schedule_recompute_calls_checked", "schedule_reuse_calls_checked"}
    return set()
