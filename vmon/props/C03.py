"""C03 — UPGrad / DualProj return the exact (regularised) dual-cone projection (DESIGN §4 C03)."""
from __future__ import annotations

import numpy as np
import torch

from .. import aggs, matrices as M, refmodels as R
from ..core import fingerprint
from ._agg import DT, EPS, as64, call, pref_vector, shape_ok, to_t
from ._common import run_cases, shard_rng, split_shards

ID = "C03"
LEVEL = "exploration"
RULE = ("hostile matrices (14 classes: Gaussian, low rank, near-antiparallel down to 1e-8, duplicated/zero rows, row norms over 12 "
        "decades, {-1,0,1}, stationary, near-dependent, ...; m <= 8 quick / <= 32 thorough, n <= 12) x preference vectors (default, "
        "random, with zeros, one-hot, spread 1e+-3) x norm_eps in 1e[-6,-2] and reg_eps in 1e[-10,-2] (float32: 1e[-5,-2]) sampled >= 1 "
        "decade apart x a ladder of global scales placing s on both sides of norm_eps x {UPGrad, DualProj} x dtype; compared AT THE "
        "OUTPUT with J^T w*, w* the exact QP minimiser (Lawson-Hanson NNLS certified by its duality gap, cross-checked by active-set "
        "enumeration for m <= 6); non-trivial = the projection is not the identity (|w* - u| > 1e-6 |u|); distinct = case sha1")
ASSUMPTIONS = ["reference QP minimiser certified a posteriori by its duality gap (<= 1e-18 |w|^2) in float64",
               "cases with s / norm_eps in (0.5, 2) are not judged (decision threshold within rounding distance)",
               "float32: reg_eps >= 1e-5 (below the resolution of the dtype the QP is not positive definite: out of domain)"]
N = {"quick": 9000, "thorough": 1500000}
TAU = {"float64": 1e-9, "float32": 2e-4}


def shards(tier, seed):
    return split_shards("random", N[tier], 16 if tier == "quick" else 32)


def requirements(tier):
    return {"output_vs_exact_projection": 3000, "w_projection_active": 1000, "w_projection_identity": 500, "w_s_below_norm_eps": 100,
            "w_s_above_norm_eps": 2000, "w_no_conflict_is_JTu": 300, "w_float32": 500, "w_pref_vector": 1000, "w_UPGrad": 1500,
            "w_DualProj": 1500, "w_m_gt_6": 200, "weights_hook_seen": 1, "w_instance_reused_on_another_matrix": 500,
            "w_pref_vector_in_other_dtype": 300}


def gen_case(rng, i, max_m=8):
    dname = "float32" if rng.random() < 0.25 else "float64"
    J, klass = M.gen(rng, max_m=max_m)
    m = J.shape[0]
    lo = -5 if dname == "float32" else -10
    while True:
        ne = float(10 ** np.round(rng.uniform(-6, -2), 2))
        re = float(10 ** np.round(rng.uniform(lo, -2), 2))
        if abs(np.log10(ne) - np.log10(re)) >= 1.0:
            break
    s = M.smax(J)
    mode = rng.random()
    if s > 0 and mode < 0.25:  # threshold ladder around norm_eps
        k = int(rng.integers(-3, 4))
        J = J * (ne * 10.0 ** k / s) * float(rng.uniform(0.3, 3.0))
    elif s > 0 and mode < 0.4:  # global scale ladder
        k = rng.uniform(-12, 15) if dname == "float32" else rng.uniform(-100, 100)
        J = J * 10.0 ** k / s
    name = "UPGrad" if rng.random() < 0.5 else "DualProj"
    agg = {"name": name, "pref": pref_vector(rng, m), "norm_eps": ne, "reg_eps": re}
    if agg["pref"] is not None and rng.random() < 0.3:
        if rng.random() < 0.3:
            agg["pref"] = [float(x) for x in rng.integers(0, 6, size=m)]  # an integer-typed preference vector, e.g. torch.tensor([1, 2, 3])
            if not any(agg["pref"]):
                agg["pref"][0] = 1.0
            agg["pref_dtype"] = "int64"
        else:
            agg["pref_dtype"] = "float32" if dname == "float64" else "float64"  # preference vector in another dtype than the matrix
    case = {"J": J.tolist(), "class": klass, "dtype": dname, "agg": agg}
    if rng.random() < 0.3:
        # the same aggregator INSTANCE is then applied to further matrices (same number of rows): every call must be right
        keep_m = ["gaussian", "lowrank", "antiparallel", "duplicated", "rowscale", "ints", "zero_rows", "nonconflicting"]
        if rng.random() < 0.5:
            # ... through ONE pre-allocated Jacobian buffer refilled in place (same tensor object, same shape, new content), with no
            # other call in between
            case["then"] = [M.gen(rng, m=m, n=J.shape[1], klass=keep_m[int(rng.integers(len(keep_m)))])[0].tolist() for _ in range(int(rng.integers(1, 3)))]
            case["buffer"] = True
        else:
            case["then"] = [M.gen(rng, m=m, klass=keep_m[int(rng.integers(len(keep_m)))], max_n=12)[0].tolist() for _ in range(int(rng.integers(1, 3)))]
    return case


def check_case(case, ctx):
    a = case["agg"]
    agg = aggs.make(a, DT[case["dtype"]])
    holder = [] if case.get("buffer") else None
    check_one(case, case["J"], agg, ctx, first=True, holder=holder)
    for k, Jn in enumerate(case.get("then", [])):
        ctx.count("w_instance_reused_on_another_matrix")
        check_one(case, Jn, agg, ctx, first=False, label=f"call {k + 2} of the same instance", holder=holder)


def check_one(case, Jlist, agg, ctx, first, label="first call", holder=None):
    dname = case["dtype"]
    Jt = to_t(np.array(Jlist, dtype=np.float64).reshape(len(Jlist), -1), dname)
    if holder is not None:
        if holder and holder[0].shape == Jt.shape:
            holder[0].copy_(Jt)  # the caller's pre-allocated buffer, refilled in place
            Jt = holder[0]
            ctx.count("w_matrix_buffer_refilled_in_place")
        else:
            holder[:] = [Jt]
    J = as64(Jt)
    m, n = J.shape
    a = case["agg"]
    out, err, w_seen = call(agg, Jt)
    if not np.isfinite(J).all():
        ctx.not_judged("nonfinite_after_cast")
        return
    if err is not None:
        ctx.violation("aggregator_raised", case, {"call": label, "error": repr(err)[:300]})
        ctx.evaluated()
        return
    bad = shape_ok(out, Jt)
    if bad:
        ctx.violation("output_shape_or_dtype", case, {"call": label, "problem": bad})
        ctx.evaluated()
        return
    if w_seen is not None:
        ctx.count("weights_hook_seen")
    o = as64(out)
    u = np.full(m, 1.0 / m) if a["pref"] is None else np.array(a["pref"], dtype=np.float64)
    if (a.get("pref_dtype") or dname) == "float32":
        u = u.astype(np.float32).astype(np.float64)
    if a.get("pref_dtype"):
        ctx.count("w_pref_vector_in_other_dtype")
    ne, re = a["norm_eps"], a["reg_eps"]
    G, s = R.regularized_normalized_gramian(J, ne, re)
    ctx.klass(f"class={case['class']}")
    if s > 0 and 0.5 < s / ne < 2.0:
        ctx.not_judged("s_within_factor_2_of_norm_eps")
        return
    eps = EPS[dname]
    if s < ne:
        exp = J.T @ u
        tol = 64 * eps * (s * np.linalg.norm(u)) * np.sqrt(m) + 1e-300
        errn = float(np.linalg.norm(o - exp))
        ctx.count("w_s_below_norm_eps")
        ctx.maximum(f"below_norm_eps_{dname}", errn / (s * np.linalg.norm(u) + 1e-300) if s > 0 else errn)
        if not errn <= tol:
            ctx.violation("not_JTu_below_norm_eps", case, {"call": label, "output": o.tolist(), "expected_JTu": exp.tolist(), "s": s, "norm_eps": ne})
        ctx.evaluated(fingerprint(case), nontrivial=False)
        return
    ctx.count("w_s_above_norm_eps")
    # tolerance derived from conditioning: neither side can resolve better than eps * sqrt(m / reg_eps) (strong convexity bound)
    tau = TAU[dname] + {"float64": 100, "float32": 10}[dname] * eps * np.sqrt(m / re)
    if a["name"] == "DualProj":
        wstar, _ = R.qp_reference(G, u)
        bound = R.qp_kkt_bound(G, u, wstar, re)
    else:
        wstar, bound = np.zeros(m), 0.0
        for i in range(m):
            e = np.zeros(m)
            e[i] = u[i]
            v, _ = R.qp_reference(G, e)
            wstar += v
            bound += R.qp_kkt_bound(G, e, v, re)
    wn = float(np.linalg.norm(wstar))
    # the reference itself must be certified (a-posteriori KKT bound) to a quarter of the tolerance, else not judged
    if not bound <= 0.25 * tau * wn:
        ctx.not_judged("reference_not_certified")
        return
    ctx.maximum("reference_certificate_over_tolerance", bound / (tau * wn) if wn > 0 else 0.0)
    exp = J.T @ wstar
    scale = s * wn
    errn = float(np.linalg.norm(o - exp))
    ctx.maximum(f"output_vs_projection_{a['name']}_{dname}", errn / scale if scale > 0 else errn)
    ctx.count("output_vs_exact_projection")
    identity = np.linalg.norm(wstar - u) <= 1e-6 * np.linalg.norm(u)
    if not errn <= tau * scale:
        ctx.violation("not_the_dual_cone_projection", case, {"call": label, "output": o.tolist(), "expected_JTw": exp.tolist(), "w_star": wstar.tolist(), "u": u.tolist(),
                                                             "rel_err_in_units_of_s_w": errn / scale, "s": s, "weights_seen": None if w_seen is None else w_seen.tolist()})
    # consequence: no negative inner product between rows => exactly J^T u
    Gram = J @ J.T
    if (Gram >= 0).all():
        ctx.count("w_no_conflict_is_JTu")
        e2 = float(np.linalg.norm(o - J.T @ u))
        tol2 = tau * s * np.linalg.norm(u)
        ctx.maximum(f"no_conflict_{dname}", e2 / (s * np.linalg.norm(u)))
        if not e2 <= tol2:
            ctx.violation("no_conflict_but_not_JTu", case, {"call": label, "output": o.tolist(), "JTu": (J.T @ u).tolist()})
    ctx.count("w_projection_identity" if identity else "w_projection_active")
    if dname == "float32":
        ctx.count("w_float32")
    if a["pref"] is not None:
        ctx.count("w_pref_vector")
    ctx.count(f"w_{a['name']}")
    if m > 6:
        ctx.count("w_m_gt_6")
    ctx.evaluated(fingerprint(case), nontrivial=not identity)
    ctx.sample({"J": np.round(J, 4).tolist(), "class": case["class"], "dtype": dname, "agg": a, "s": s, "w_star": np.round(wstar, 6).tolist()})


def run_shard(shard, ctx):
    mm = 8 if ctx.tier == "quick" else 32
    def gen(r, i):
        return gen_case(r, i, max_m=mm if i % 4 == 0 else 8)
    run_cases(ctx, shard_rng(ctx.seed, ID, ctx.shard_index), shard["n"], gen, check_case)


def replay(case, ctx):
    check_case(case, ctx)
