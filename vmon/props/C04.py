"""C04 — Non-conflicting aggregators never oppose any objective (DESIGN §4 C04)."""
from __future__ import annotations

import itertools

import numpy as np
import torch

from .. import aggs, matrices as M, refmodels as R
from ..core import fingerprint
from ._agg import EPS, as64, call, pref_vector, shape_ok, to_t
from ._common import run_cases, shard_rng, split_shards

ID = "C04"
LEVEL = "exploration"
RULE = ("EXHAUSTIVELY all matrices with entries in {-1,0,1} of every shape up to 3x3 (21 297 matrices; UPGrad and DualProj on all of "
        "them in both tiers; MGDA and CAGrad on all of them in the thorough tier, in the quick tier on all shapes up to 2x3 plus every 4th "
        "(MGDA) / a seeded 12 % sample (CAGrad) of the 3x3 matrices) "
        "+ hostile matrices (near-antiparallel, stationary, rank-deficient, badly scaled; s >= 2 norm_eps) x non-negative preference "
        "vectors x max_iters in {1,5,20,100,500} (2000, 3000, 5000 on matrices where Frank-Wolfe revisits a vertex) x epsilon in {0,1e-3} x c in [1,3]; every entry of J.A(J) >= -allowance - slop; "
        "non-trivial = the matrix contains a conflict (some pair of rows with negative inner product); distinct = (matrix, aggregator) sha1")
EXHAUSTIVE_NOTE = {"quick": "all 21 297 {-1,0,1} matrices up to 3x3 for UPGrad, DualProj; MGDA / CAGrad: all up to 2x3 + a sample of 3x3",
                   "thorough": "all 21 297 {-1,0,1} matrices up to 3x3 for UPGrad, DualProj, MGDA and CAGrad"}
ASSUMPTIONS = ["allowances as stated: reg_eps s^2 w_i (w = exact projection weights, reference), s sqrt(|A|^2 - rho^2) for MGDA (rho by support "
               "enumeration), tau_c |J_i| s (1+c) for row i for CAGrad with tau_c = 3e-4 (float64) / 5e-3 (float32)",
               "slop = rounding of the product and of the output: 64 eps s^2 |w|_1 + C03's output tolerance times s"]
SHAPES = [(m, n) for m in (1, 2, 3) for n in (1, 2, 3)]
HOSTILE = {"quick": 2400, "thorough": 480000}
# CAGrad: "up to the conic solver's tolerance".  CLARABEL stops at ~1e-8 on the objective, i.e. ~1e-4 on a flat minimiser; at c = 1 the
# guarantee is tight (inner products may be exactly 0).  Worst observed over 100 000 hostile float64 matrices: 2.7e-5 s^2.
TAU_C = {"float64": 3e-4, "float32": 5e-3}


def exhaustive(tier):
    return True


def all_ints():
    for m, n in SHAPES:
        for ent in itertools.product((-1.0, 0.0, 1.0), repeat=m * n):
            yield np.array(ent).reshape(m, n)


def shards(tier, seed):
    n = 12 if tier == "quick" else 24
    out = [{"kind": "ints", "part": i, "parts": n, "cagrad": "all" if tier == "thorough" else "small+sample"} for i in range(n)]
    out += split_shards("hostile", HOSTILE[tier], 4 if tier == "quick" else 8)
    # CAGrad on "small-gradient objectives": row norms spread over up to three decades (a nearly converged auxiliary loss next to a
    # large one): the small rows must not be opposed either
    out += split_shards("cagrad_small_rows", 480 if tier == "quick" else 100000, 4 if tier == "quick" else 8)
    # "all iteration budgets": thousands of Frank-Wolfe iterations on matrices where the iteration returns to a vertex it has
    # already made a full step to (a solver that stalls at a sub-optimal point exceeds 8 s^2 / (max_iters + 2) only for such budgets)
    out += split_shards("mgda_long_budget", 320 if tier == "quick" else 12000, 8 if tier == "quick" else 16)
    return out


def requirements(tier):
    return {"ints_matrices_enumerated": 21297, "entries_checked:UPGrad": 20000, "entries_checked:DualProj": 20000, "entries_checked:MGDA": 8000,
            "entries_checked:CAGrad": 1000, "mgda_suboptimality_bound_checked": 3000, "w_conflict_present": 5000, "w_allowance_binding": 20,
            "w_max_iters=1": 10, "w_max_iters=5": 10, "w_max_iters=20": 10, "w_max_iters=100": 10, "w_max_iters=500": 10, "w_max_iters=2000": 50, "w_max_iters=3000": 50, "w_max_iters=5000": 50, "w_hostile_pref_vector": 200,
            "w_float32": 200, "w_tiny_scale_with_norm_eps_below_it": 100}


_BUFFERS: dict = {}


def judge(J64, dname, a, ctx, case, klass):
    """One aggregator on one matrix."""
    Jt = to_t(J64, dname)
    if isinstance(case, dict) and case.get("buffer"):
        # the caller keeps one pre-allocated Jacobian buffer per shape and refills it in place before each call: the SAME tensor
        # object with NEW content (a memo keyed by the tensor object would serve the previous Gramian)
        key = (tuple(Jt.shape), dname)
        if key in _BUFFERS:
            _BUFFERS[key].copy_(Jt)
            Jt = _BUFFERS[key]
            ctx.count("w_matrix_buffer_refilled_in_place")
        else:
            _BUFFERS[key] = Jt
    J = as64(Jt)
    m, n = J.shape
    s = M.smax(J)
    name = a["name"]
    ne = a.get("norm_eps", 1e-4)
    if name in ("UPGrad", "DualProj", "CAGrad") and s < 2 * ne:
        ctx.not_judged("s_below_2_norm_eps")
        return
    agg = aggs.make(a, Jt.dtype)
    out, err, w_seen = call(agg, Jt)
    if err is not None:
        ctx.violation("aggregator_raised", case, {"error": repr(err)[:300]})
        return
    bad = shape_ok(out, Jt)
    if bad:
        ctx.violation("output_shape_or_dtype", case, {"problem": bad})
        return
    o = as64(out)
    if not np.isfinite(o).all():
        ctx.violation("output_not_finite", case, {"output": o.tolist()})
        return
    prod = J @ o
    eps = EPS[dname]
    conflict = M.has_conflict(J)
    if name in ("UPGrad", "DualProj"):
        re = a.get("reg_eps", 1e-4)
        u = np.full(m, 1.0 / m) if a.get("pref") is None else np.array(a["pref"], dtype=np.float64)
        G, _ = R.regularized_normalized_gramian(J, ne, re)
        if name == "DualProj":
            w = R.qp_reference(G, u)[0]
        else:
            w = np.zeros(m)
            for i in range(m):
                e = np.zeros(m)
                e[i] = u[i]
                w += R.qp_reference(G, e)[0]
        tau = {"float64": 1e-9, "float32": 2e-4}[dname] + {"float64": 100, "float32": 10}[dname] * eps * np.sqrt(m / re)
        allowance = re * s ** 2 * np.maximum(w, 0)
        slop = 64 * eps * s ** 2 * np.abs(w).sum() + tau * s ** 2 * np.linalg.norm(w)
    elif name == "MGDA":
        G = J @ J.T
        _, rho2 = R.min_norm_point(G)
        sub = max(float(o @ o) - rho2, 0.0)
        # |A|^2 - rho^2 is a difference of squares: both are only known to ~ eps m s^2 (rounding of A in its dtype, of the
        # reference in float64), so the allowance s sqrt(|A|^2 - rho^2) has the floor s sqrt(16 eps m s^2)
        allowance = np.full(m, s * np.sqrt(sub + 16 * eps * m * s ** 2))
        slop = 64 * eps * s ** 2 * np.sqrt(m) + (1e-7 if dname == "float32" else 1e-14) * s ** 2
        if a.get("epsilon", 1e-3) == 0:
            ctx.count("mgda_suboptimality_bound_checked")
            bound = 8 * s ** 2 / (a.get("max_iters", 100) + 2)
            ctx.maximum("mgda_suboptimality_over_bound", sub / bound if bound > 0 else 0.0)
            if not sub <= bound * (1 + 1e-9) + 64 * eps * s ** 2:
                ctx.violation("mgda_suboptimality_exceeds_bound", case, {"suboptimality": sub, "bound_8s2_over_iters_plus_2": bound, "max_iters": a.get("max_iters", 100)})
                return
        ctx.count(f"w_max_iters={a.get('max_iters', 100)}")
    else:  # CAGrad, c >= 1
        allowance = np.zeros(m)
        # the solver's error is an error dA on the output with |dA| <= tau_c s (1 + c): entry i of J.A moves by at most |J_i| |dA|.
        # Per-row slop (it was tau_c s^2 (1 + c) for every row, which let a clearly negative entry on a SMALL row pass)
        # ... which holds where CAGrad is well-posed.  Near stationarity (the convex hull of the rows comes within rho <= 2e-3 s
        # (float64) / 1e-2 s (float32) of the origin: the guard of C08 / C18) the optimal combination g_w vanishes, the direction
        # g_w / |g_w| is decided by the solver's last digits and A itself is discontinuous: there only the bound in units of s^2 is
        # meaningful (thorough seed 12: 4 x 1 matrix with rows of both signs, exact answer A = 0, float32 answer 0.28 s).
        _, rho2 = R.min_norm_point(J @ J.T) if m <= 8 else (None, None)
        well_posed = rho2 is not None and np.sqrt(max(rho2, 0.0)) >= {"float64": 2e-3, "float32": 1e-2}[dname] * s
        if well_posed:
            slop = TAU_C[dname] * s * (1 + a["c"]) * np.linalg.norm(J, axis=1)
            rowunit = np.maximum(np.linalg.norm(J, axis=1) * s, 1e-300)
            ctx.maximum(f"cagrad_worst_negative_entry_over_rownorm_s_{dname}", float(max((-prod / rowunit).max(), 0.0)))
            ctx.count("cagrad_per_row_slop_applied")
        else:
            slop = np.full(m, TAU_C[dname] * s ** 2 * (1 + a["c"]))
            ctx.count("cagrad_near_stationary_s2_slop_applied")
    slack = prod + allowance + slop
    ctx.count(f"entries_checked:{name}", m)
    unit = s ** 2 if s > 0 else 1.0
    ctx.maximum(f"worst_negative_entry_over_s2_{name}_{dname}", float(max(-(prod + allowance).min(), 0.0)) / unit)
    if (slack < 0).any():
        i = int(np.argmin(slack))
        ctx.violation("opposes_an_objective", case, {"row": i, "J_dot_A": prod.tolist(), "allowance": allowance.tolist(), "slop": np.asarray(slop).tolist(), "output": o.tolist(), "s": s})
        return
    if conflict:
        ctx.count("w_conflict_present")
    if (prod < -slop * 0.0).any() and (prod < 0).any() and (prod + allowance >= 0).all():
        ctx.count("w_allowance_binding")
    if dname == "float32":
        ctx.count("w_float32")
    return conflict


def run_ints(shard, ctx):
    base = [{"name": "UPGrad"}, {"name": "DualProj"}, {"name": "MGDA", "epsilon": 0.0, "max_iters": 100}]
    srng = shard_rng(ctx.seed, ID, 1000 + shard["part"])
    for idx, J in enumerate(all_ints()):
        if idx % shard["parts"] != shard["part"]:
            continue
        ctx.count("ints_matrices_enumerated")
        small = J.shape[0] * J.shape[1] <= 6
        todo = list(base) if (shard["cagrad"] == "all" or small or idx % 4 == 0) else list(base[:2])  # quick tier: MGDA on every 4th 3x3 matrix
        if shard["cagrad"] == "all" or small or srng.random() < 0.12:
            todo.append({"name": "CAGrad", "c": [1.0, 1.5, 2.0][idx % 3]})
        for a in todo:
            dname = "float64" if (idx + len(a["name"])) % 5 else "float32"
            case = {"J": J.tolist(), "dtype": dname, "agg": a, "class": "ints"}
            conflict = judge(J, dname, a, ctx, case, "ints")
            ctx.evaluated(fingerprint(case), nontrivial=bool(conflict))
        if idx % 4000 == 7:
            ctx.sample({"J": J.tolist(), "aggregators": [a["name"] for a in todo], "conflict": M.has_conflict(J)})


HOSTILE_CLASSES = ["antiparallel", "stationary_strong", "stationary_weak", "lowrank", "rowscale", "duplicated", "near_dependent", "gaussian", "zero_rows", "tall"]


def gen_hostile(rng, i):
    J, klass = M.gen(rng, klass=HOSTILE_CLASSES[int(rng.integers(len(HOSTILE_CLASSES)))], max_m=6, max_n=8)
    m = J.shape[0]
    dname = "float32" if rng.random() < 0.25 else "float64"
    if rng.random() < 0.3:
        J = J * 10.0 ** rng.uniform(-3, 6)
    r = rng.random()
    if r < 0.3:
        a = {"name": "UPGrad", "pref": pref_vector(rng, m), "reg_eps": float(10 ** np.round(rng.uniform(-5 if dname == "float32" else -8, -2), 1))}
    elif r < 0.55:
        a = {"name": "DualProj", "pref": pref_vector(rng, m), "reg_eps": float(10 ** np.round(rng.uniform(-5 if dname == "float32" else -8, -2), 1))}
    elif r < 0.85:
        a = {"name": "MGDA", "epsilon": [0.0, 1e-3][int(rng.integers(2))], "max_iters": [1, 5, 20, 100, 500][int(rng.integers(5))]}
    else:
        a = {"name": "CAGrad", "c": float(np.round(rng.uniform(1.0, 3.0), 2))}
    if a["name"] in ("UPGrad", "DualProj") and rng.random() < 0.15:
        # an integer-typed preference vector, e.g. torch.tensor([1, 2, 0]) (accepted by the library)
        a["pref"] = [float(x) for x in rng.integers(0, 5, size=m)]
        if not any(a["pref"]):
            a["pref"][0] = 1.0
        a["pref_dtype"] = "int64"
    if a["name"] in ("UPGrad", "DualProj") and rng.random() < 0.12:
        # "badly scaled": a Jacobian of tiny gradients with norm_eps configured below its scale (s >= norm_eps holds).  The squares
        # of such entries are denormal or zero in the matrix dtype; their ratios to s are ordinary numbers
        e = rng.uniform(-26, -18) if dname == "float32" else rng.uniform(-140, -100)
        J = J * 10.0 ** e / max(M.smax(J), 1e-300)
        a["norm_eps"] = 1e-32 if dname == "float32" else 1e-200
        klass += "+tiny_scale_small_norm_eps"
    if a["name"] == "MGDA" and rng.random() < 0.5:
        # MGDA has no scale parameter at all: its sub-optimality bound 8 s^2 / (iterations + 2) must hold at every magnitude
        J = J * 10.0 ** rng.uniform(-8, 8) / max(M.smax(J), 1e-300)
    return {"J": J.tolist(), "dtype": dname, "agg": a, "class": klass, "buffer": bool(rng.random() < 0.3)}


def gen_small_rows(rng, i):
    m, n = int(rng.integers(2, 6)), int(rng.integers(2, 7))
    J = rng.standard_normal((m, n)) * (10.0 ** -rng.uniform(0, 3, size=(m, 1)))
    if rng.random() < 0.3:
        J = J * 10.0 ** rng.uniform(-2, 4)
    return {"J": J.tolist(), "dtype": "float32" if rng.random() < 0.25 else "float64", "agg": {"name": "CAGrad", "c": float(np.round(rng.uniform(1.0, 2.5), 2))},
            "class": "small_gradient_objectives"}


def gen_long_budget(rng, i):
    J = M.fw_revisit(rng, int(rng.integers(2, 5)))
    return {"J": J.tolist(), "dtype": "float64", "agg": {"name": "MGDA", "epsilon": 0.0, "max_iters": [2000, 3000, 5000][int(rng.integers(3))]},
            "class": "frank_wolfe_revisits_a_vertex"}


def check_hostile(case, ctx):
    J = np.array(case["J"], dtype=np.float64).reshape(len(case["J"]), -1)
    conflict = judge(J, case["dtype"], case["agg"], ctx, case, case["class"])
    if case["agg"].get("pref") is not None:
        ctx.count("w_hostile_pref_vector")
    if case["class"].endswith("+tiny_scale_small_norm_eps"):
        ctx.count("w_tiny_scale_with_norm_eps_below_it")
    ctx.klass(f"hostile/{case['class']}/{case['agg']['name']}")
    ctx.evaluated(fingerprint(case), nontrivial=bool(conflict))
    ctx.sample({"J": np.round(J, 4).tolist(), "class": case["class"], "agg": case["agg"], "dtype": case["dtype"]})


def run_shard(shard, ctx):
    if shard["kind"] == "ints":
        run_ints(shard, ctx)
    elif shard["kind"] == "mgda_long_budget":
        run_cases(ctx, shard_rng(ctx.seed, ID, ctx.shard_index), shard["n"], gen_long_budget, check_hostile)
    elif shard["kind"] == "cagrad_small_rows":
        run_cases(ctx, shard_rng(ctx.seed, ID, ctx.shard_index), shard["n"], gen_small_rows, check_hostile)
    else:
        run_cases(ctx, shard_rng(ctx.seed, ID, ctx.shard_index), shard["n"], gen_hostile, check_hostile)


def replay(case, ctx):
    check_hostile(case, ctx)
