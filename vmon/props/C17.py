"""C17 — Impartial aggregators treat every objective alike (DESIGN §4 C17)."""
from __future__ import annotations

import numpy as np
import torch

from .. import aggs, matrices as M, refmodels as R
from ..core import fingerprint
from . import _equiv as E
from ._agg import DT, EPS, as64, call, shape_ok, to_t
from ._common import run_cases, shard_rng, split_shards

ID = "C17"
LEVEL = "exploration"
RULE = ("matrices with m <= n, full row rank, condition number <= 1e4 (float64) / 1e2 (float32) (Aligned-MTL: <= 50, its rank tolerance uses the "
        "float32 epsilon in every dtype), global scales 1e-6 .. 1e6, positive preference vectors; IMTL-G: weights sum to one and equal projections "
        "on every row direction; ConFIG: equal positive cosines (proportional to the preference vector) and length = sum of projections; "
        "Aligned-MTL: one-hot preference vectors give mutually orthogonal vectors of length sigma_min(J) and A_u = sum u_i r_i; zero "
        "matrices of all shapes give the zero vector; non-trivial = m >= 2 and row norms differ by more than 10 %; distinct = case sha1")
ASSUMPTIONS = ["defining equations checked with tau = 1e-8 (float64) / 5e-3 (float32) in the natural unit of each equation"]
N = {"quick": 5000, "thorough": 800000}
TAU = {"float64": 1e-8, "float32": 5e-3}


def shards(tier, seed):
    return split_shards("random", N[tier], 12 if tier == "quick" else 32) + [{"kind": "zeros"}]


def requirements(tier):
    return {"judged:IMTLG": 800, "judged:ConFIG": 800, "judged:AlignedMTL": 800, "zero_matrix_checked": 100, "w_pref_vector:ConFIG": 200,
            "w_pref_vector:AlignedMTL": 200, "w_scale_far_from_1": 500, "w_float32": 500, "w_row_norms_differ": 1000, "w_very_wide": 40, "w_instance_already_used": 1000, "w_model_sized_matrix": 3}


def gen_case(rng, i):
    name = ["IMTLG", "ConFIG", "AlignedMTL"][int(rng.integers(3))]
    dname = "float32" if rng.random() < 0.25 else "float64"
    m = int(rng.integers(1, 7))
    n = int(rng.integers(m, m + 6))
    if rng.random() < 0.08:
        n = [5000, 50000][int(rng.integers(2))]  # as many columns as a real model has parameters
    cmax = 50.0 if name == "AlignedMTL" else (1e2 if dname == "float32" else 1e4)
    cond = float(10 ** rng.uniform(0, np.log10(cmax)))
    # "all scales": 60 decades in float64, 24 in float32 (Gramians stay representable)
    scale = float(10 ** (rng.uniform(-30, 30) if dname == "float64" else rng.uniform(-12, 12))) if rng.random() < 0.6 else 1.0
    J = M.well_conditioned(rng, m, n, cond=cond, scale=1.0)
    if rng.random() < 0.5:
        J = J * (10.0 ** rng.uniform(-1, 1, size=(m, 1)))  # unequal row norms (keeps full row rank; condition re-measured below)
    J = J * scale
    pref = [float(x) for x in np.round(rng.uniform(0.1, 3.0, size=m), 3)] if name != "IMTLG" and rng.random() < 0.5 else None
    # half of the cases use the aggregator as a training loop does: the SAME instance has already aggregated other matrices (of other
    # scales, same number of rows) before the judged call
    warm = [float(10 ** rng.uniform(-3, 3)) for _ in range(int(rng.integers(1, 4)))] if rng.random() < 0.5 else []
    if name == "ConFIG" and dname == "float32" and rng.random() < 0.08:
        # a Jacobian with as many columns as a small real network has parameters (generated from a seed: not stored)
        gen = {"seed": int(rng.integers(1 << 30)), "m": int(rng.integers(2, 5)), "n": 1_000_000, "cond": float(10 ** rng.uniform(0, 2))}
        return {"Jgen": gen, "dtype": dname, "agg": {"name": name, "pref": pref if pref is not None and len(pref) == gen["m"] else None}, "scale": 1.0,
                "cmax": cmax, "warm": []}
    return {"J": J.tolist(), "dtype": dname, "agg": {"name": name, "pref": pref} if name != "IMTLG" else {"name": name}, "scale": scale, "cmax": cmax,
            "warm": warm}


def check_case(case, ctx):
    dname, a = case["dtype"], case["agg"]
    name = a["name"]
    if "Jgen" in case:
        g = case["Jgen"]
        J0 = M.well_conditioned(np.random.default_rng(g["seed"]), g["m"], g["n"], cond=g["cond"], scale=1.0)
        ctx.count("w_model_sized_matrix")
    else:
        J0 = np.array(case["J"], dtype=np.float64).reshape(len(case["J"]), -1)
    Jt = to_t(J0, dname)
    J = as64(Jt)
    m, n = J.shape
    sv = M.singular_values(J)
    if sv[-1] == 0 or sv[0] / sv[-1] > case["cmax"] * 1.5:
        ctx.not_judged("condition_number_out_of_class")
        return
    if name == "ConFIG":
        U = M.unit_rows(J)
        su = M.singular_values(U)
        if su[0] / su[-1] > case["cmax"] * 1.5:
            ctx.not_judged("unit_rows_condition_out_of_class")
            return
    tau = TAU[dname]
    norms = np.linalg.norm(J, axis=1)
    f9 = None
    if name == "ConFIG":
        # known finding F9: ConFIG's rank cut-off (pinv default rtol = max(m, n) eps) grows with the number of columns
        kept = E.config_pinv_rank(J, dname)
        if kept is None:
            ctx.not_judged("ConFIG:singular_value_within_4x_of_the_pinv_cutoff")
            return
        if kept < m:
            f9 = {"rows": m, "columns": n, "singular_values_kept_by_pinv": kept, "unit_rows_sigma_min_over_sigma_max": float(su[-1] / su[0])}
            ctx.count("w_config_pinv_cutoff_above_a_singular_value")

    warm = case.get("warm") or []

    def run(desc):
        agg = aggs.make(desc, Jt.dtype)
        # earlier calls of the same instance (their results are not judged here) - through ONE pre-allocated buffer refilled in
        # place, which the judged call sees too (same tensor object, new content)
        buf = Jt.clone()
        wrng = np.random.default_rng(len(warm) * 7919 + m * 131 + n)
        for k, f in enumerate(warm):
            # (unrelated content: a rolled / rescaled copy of J has the same Gramian up to a factor, hence the same balance transformation)
            buf.copy_(torch.tensor(wrng.standard_normal((m, n)) * f, dtype=torch.float64).to(Jt.dtype))
            call(agg, buf)
        buf.copy_(Jt)
        out, err, w = call(agg, buf if warm else Jt)
        if err is not None:
            ctx.violation("aggregator_raised", case, {"error": repr(err)[:300], "agg": desc})
            return None
        bad = shape_ok(out, Jt)
        if bad:
            ctx.violation("output_shape_or_dtype", case, {"problem": bad})
            return None
        return as64(out)

    A = run(a)
    if A is None:
        ctx.evaluated()
        return
    nA = float(np.linalg.norm(A))
    vio = None
    if name == "IMTLG":
        w = R.lstsq_weights(J, A)
        if abs(w.sum() - 1.0) > tau * max(1.0, np.abs(w).sum()):
            vio = ("imtlg_weights_do_not_sum_to_one", {"weights": w.tolist(), "sum": float(w.sum())})
        proj = (J @ A) / norms
        spread = float(proj.max() - proj.min())
        ctx.maximum(f"imtlg_projection_spread_{dname}", spread / max(nA, 1e-300))
        if vio is None and spread > tau * nA:
            vio = ("imtlg_projections_differ", {"projections": proj.tolist(), "norm_A": nA})
    elif name == "ConFIG":
        u = np.ones(m) if a["pref"] is None else np.array(a["pref"])
        cos = (J @ A) / (norms * max(nA, 1e-300))
        # "cosines proportional to the preference vector": cos_i = c u_i with c fitted by least squares; the deviation is measured in
        # units of the largest cosine, so that a SMALL preference entry does not amplify the rounding of its (small) cosine
        # (thorough seed 12: float32, 10^6 columns, pref 0.133 next to 1.869: ratio cos / u off by 0.5 % from rounding alone)
        cfit = float(cos @ u) / float(u @ u)
        dev = float(np.abs(cos - cfit * u).max()) / max(float(np.abs(cos).max()), 1e-300)
        ctx.maximum(f"config_cosine_deviation_{dname}", dev)
        if (cos <= 0).any():
            vio = ("config_cosine_not_positive", {"cosines": cos.tolist()})
        elif dev > tau:
            vio = ("config_cosines_not_equal_or_not_proportional_to_pref", {"cosines": cos.tolist(), "pref": u.tolist(), "fitted_c": cfit, "deviation": dev})
        else:
            length = float((J @ (A / nA)).sum())
            ctx.maximum(f"config_length_{dname}", abs(length - nA) / nA)
            if abs(length - nA) > tau * nA:
                vio = ("config_length_is_not_the_sum_of_projections", {"norm_A": nA, "sum_of_projections": length})
        if a["pref"] is not None:
            ctx.count("w_pref_vector:ConFIG")
    else:
        smin = float(sv[-1])
        rs = []
        for i in range(m):
            e = [0.0] * m
            e[i] = 1.0
            r = run({"name": "AlignedMTL", "pref": e})
            if r is None:
                ctx.evaluated()
                return
            rs.append(r)
        Rm = np.array(rs)
        gram = Rm @ Rm.T
        off = gram - np.diag(np.diag(gram))
        ctx.maximum(f"alignedmtl_orthogonality_{dname}", float(np.abs(off).max()) / smin ** 2 if m > 1 else 0.0)
        ctx.maximum(f"alignedmtl_length_{dname}", float(np.abs(np.sqrt(np.diag(gram)) - smin).max()) / smin)
        if m > 1 and np.abs(off).max() > tau * smin ** 2:
            vio = ("alignedmtl_rebalanced_rows_not_orthogonal", {"gram_over_sigma_min_sq": (gram / smin ** 2).tolist()})
        elif np.abs(np.sqrt(np.diag(gram)) - smin).max() > tau * smin:
            vio = ("alignedmtl_rebalanced_rows_not_of_length_sigma_min", {"lengths": np.sqrt(np.diag(gram)).tolist(), "sigma_min": smin})
        else:
            u = np.full(m, 1.0 / m) if a["pref"] is None else np.array(a["pref"])
            exp = u @ Rm
            d = float(np.linalg.norm(A - exp))
            ctx.maximum(f"alignedmtl_combination_{dname}", d / (smin * np.abs(u).sum()))
            if d > tau * smin * np.abs(u).sum():
                vio = ("alignedmtl_is_not_the_preference_weighted_combination", {"A": A.tolist(), "sum_u_i_r_i": exp.tolist(), "pref": u.tolist()})
        if a["pref"] is not None:
            ctx.count("w_pref_vector:AlignedMTL")
    if vio:
        ctx.violation(vio[0], case, {**vio[1], "pinv_cutoff": f9})
    ctx.count(f"judged:{name}")
    if dname == "float32":
        ctx.count("w_float32")
    if not 1e-2 < case["scale"] < 1e2:
        ctx.count("w_scale_far_from_1")
    differ = m >= 2 and norms.max() / norms.min() > 1.1
    if differ:
        ctx.count("w_row_norms_differ")
    ctx.evaluated(fingerprint(case), nontrivial=differ)
    if n >= 1000:
        ctx.count("w_very_wide")
    if warm:
        ctx.count("w_instance_already_used")
    if "Jgen" in case and vio is None:
        ctx.count("w_model_sized_matrix_held")
    ctx.sample({"J": np.round(J[:, :8], 4).tolist(), "columns": n, "agg": a, "dtype": dname, "cond": float(sv[0] / sv[-1])})


def run_zeros(ctx):
    for dname in ("float64", "float32"):
        for m in range(1, 6):
            for n in range(1, 6):
                Z = torch.zeros(m, n, dtype=DT[dname])
                for desc in ({"name": "IMTLG"}, {"name": "ConFIG"}, {"name": "AlignedMTL"}, {"name": "ConFIG", "pref": [1.0 + i for i in range(m)]},
                             {"name": "AlignedMTL", "pref": [1.0 + i for i in range(m)]}):
                    out, err, _ = call(aggs.make(desc, DT[dname]), Z)
                    case = {"agg": desc, "shape": [m, n], "dtype": dname}
                    if err is not None:
                        ctx.violation("aggregator_raised_on_zero_matrix", case, {"error": repr(err)[:200]})
                    elif shape_ok(out, Z) or not bool((out == 0).all()):
                        ctx.violation("zero_matrix_does_not_give_zero_vector", case, {"output": out.tolist()})
                    else:
                        ctx.count("zero_matrix_checked")
                    ctx.evaluated(fingerprint(case), nontrivial=False)


def run_shard(shard, ctx):
    if shard["kind"] == "zeros":
        run_zeros(ctx)
    else:
        run_cases(ctx, shard_rng(ctx.seed, ID, ctx.shard_index), shard["n"], gen_case, check_case)


def replay(case, ctx):
    if "J" in case or "Jgen" in case:
        check_case(case, ctx)
    else:
        run_zeros(ctx)


def config_pinv_cutoff_grows_with_columns(v):
    """F9: ConFIG computes torch.linalg.pinv(unit rows) with the default tolerance max(m, n) eps: for a float32 matrix with 10^6 columns
    every singular value of the unit rows below 0.12 sigma_1 is discarded (all of them from 8.4 million columns on)."""
    d = v["detail"].get("pinv_cutoff")
    return (v["kind"].startswith("config_") and v["case"]["agg"]["name"] == "ConFIG" and bool(d)
            and d["singular_values_kept_by_pinv"] < d["rows"])


CLASSIFIERS = {"config_pinv_cutoff_grows_with_columns": config_pinv_cutoff_grows_with_columns}
