"""C20 — A call rejected for its arguments changes nothing (DESIGN §4 C20).  Fault enumeration.

For each kind of invalid argument, at every position of the argument lists, combined with a random valid remainder
(random program, pre-existing .grad on some leaves): if the call raises, every leaf's .grad must afterwards be the same
object (or still None) with the same bits and the same _version.
"""
from __future__ import annotations

import numpy as np
import torch

from .. import aggs, autojac as aj, programs as P
from ..core import fingerprint
from . import C02
from ._common import run_cases, shard_rng, split_shards, tolist

ID = "C20"
LEVEL = "fault_enumeration"
RULE = ("every kind of invalid argument (22 kinds: non-positive chunk sizes, empty tensors/features/losses, non-scalar loss, "
        "losses/parameter-group count mismatch both ways, shared/task overlap, duplicate tensor/feature/parameter, non-leaf or "
        "non-requires-grad parameter, aggregator rejecting the Jacobian in backward) x EVERY listing position of the offending "
        "argument x >= 8 fresh allocations (set order follows addresses) x random valid programs with pre-existing .grad; "
        "non-trivial = the call raised AND some requested valid leaf had been listed before the offending one or carried a "
        "pre-existing .grad; distinct = (kind, position, program) sha1")
ASSUMPTIONS = ["only leaves' .grad fields are inspected (object identity, bits, _version)"]
PROGRAMS = {"quick": 36, "thorough": 20000}
ALLOC = 8


def shards(tier, seed):
    return split_shards("backward", PROGRAMS[tier], 8 if tier == "quick" else 16) + split_shards("mtl", PROGRAMS[tier], 8 if tier == "quick" else 16)


def requirements(tier):
    kinds_b = ["chunk_nonpositive", "empty_tensors", "duplicate_tensor", "input_non_leaf", "input_no_requires_grad",
               "aggregator_rejects_rows", "aggregator_rejects_nonfinite"]
    kinds_m = ["chunk_nonpositive", "empty_features", "empty_losses", "non_scalar_loss", "non_scalar_loss_single_element", "more_param_groups_than_losses",
               "fewer_param_groups_than_losses", "no_param_group_for_any_loss", "shared_task_overlap", "duplicate_feature", "duplicate_task_param",
               "duplicate_shared_param", "task_param_non_leaf", "shared_param_non_leaf", "task_param_no_requires_grad",
               "shared_param_no_requires_grad"]
    req = {f"raised:backward/{k}": 10 for k in kinds_b}
    req.update({f"raised:mtl/{k}": 10 for k in kinds_m})
    req.update({"grads_inspected_after_rejection": 2000, "w_bad_input_first_in_set_order": 5, "w_bad_input_interior_in_set_order": 5,
                "w_bad_input_last_in_set_order": 5, "w_pre_existing_grad": 500, "w_bad_param_in_later_task": 20})
    return req


# ------------------------------------------------------------------------------------------------
def _pregrads(leaves, rng, dtype):
    for l in leaves:
        if l.requires_grad and rng.random() < 0.5:
            l.grad = torch.tensor(rng.standard_normal(tuple(l.shape)), dtype=torch.float64).to(dtype)


def _no_grad_tensor(prng):
    """A tensor that cannot receive a gradient: a plain leaf without requires_grad, or a FROZEN module parameter (fine-tuning)."""
    t = torch.tensor(prng.standard_normal(2))
    if prng.random() < 0.5:
        return torch.nn.Parameter(t, requires_grad=False)
    return t


def _global_state():
    return {"grad_enabled": torch.is_grad_enabled(), "inference_mode": torch.is_inference_mode_enabled(), "default_dtype": str(torch.get_default_dtype()),
            "deterministic": torch.are_deterministic_algorithms_enabled(), "anomaly": torch.is_anomaly_enabled()}


def _restore_global_state(g):
    torch.set_grad_enabled(g["grad_enabled"])
    torch.set_default_dtype({"torch.float32": torch.float32, "torch.float64": torch.float64}.get(g["default_dtype"], torch.float32))


def _attempt(call, leaves, ctx, kind, case_desc, extra):
    """Runs one invalid call; if it raises, inspects every leaf's .grad."""
    before = aj.snap(leaves)
    glob = _global_state()
    try:
        call()
    except Exception as e:
        ctx.count(f"raised:{kind}")
        after = _global_state()
        if after != glob:
            # "changes nothing": the process-wide switches a later, valid call depends on are part of that
            ctx.violation("rejected_call_changed_global_state", case_desc, {"kind": kind, "before": glob, "after": after, **extra})
            _restore_global_state(glob)
        bad = aj.grads_untouched(leaves, before)
        ctx.count("grads_inspected_after_rejection", len(leaves))
        if any(b[0] is not None for b in before):
            ctx.count("w_pre_existing_grad")
        if bad:
            ctx.violation("rejected_call_modified_grad", case_desc, {"kind": kind, "error": repr(e)[:200], "modified_leaves": bad,
                                                                     "had_grad_before": [before[i][0] is not None for i in bad], **extra})
        return True
    # every kind driven here is one the statement lists as refused (on the unchanged tree none is ever accepted): a call that
    # goes through instead has, in particular, modified .grad fields on the strength of invalid arguments
    ctx.count(f"obs_accepted:{kind}")
    ctx.violation("invalid_call_was_not_refused", case_desc, {"kind": kind, "modified_leaves": aj.grads_untouched(leaves, before), **extra})
    return False


def gen_backward(rng, i):
    desc = P.gen_program(rng, "float64", n_leaves=int(rng.integers(2, 6)))
    return {"program": desc, "pseed": int(rng.integers(1 << 30))}


def check_backward(case, ctx):
    from torchjd import backward
    desc = case["program"]
    rgidx = [j for j, l in enumerate(desc["leaves"]) if l["rg"]]
    prng = np.random.default_rng(case["pseed"])
    slim = {"program": dict(desc), "pseed": case["pseed"]}

    def fresh():
        b = P.build(desc)
        _pregrads(b.leaves, prng, torch.float64)
        m = sum(o.numel() for o in b.outputs)
        return b, m, [b.leaves[j] for j in rgidx]

    def good_agg(m):
        return aggs.make({"name": "Constant", "weights": [0.5 + 0.1 * k for k in range(m)]}, torch.float64)

    n_eval = 0
    # chunk sizes
    for c in (0, -1, -7):
        b, m, rg = fresh()
        _attempt(lambda: backward(b.outputs, good_agg(m), inputs=rg, parallel_chunk_size=c), b.leaves, ctx, "backward/chunk_nonpositive", slim, {"chunk": c})
        n_eval += 1
    b, m, rg = fresh()
    _attempt(lambda: backward([], good_agg(1), inputs=rg), b.leaves, ctx, "backward/empty_tensors", slim, {})
    # duplicate tensor at every pair of positions
    b, m, rg = fresh()
    outs = list(b.outputs)
    for p in range(len(outs) + 1):
        for q in range(len(outs)):
            b, m, rg = fresh()
            outs = list(b.outputs)
            lst = outs[:p] + [outs[q]] + outs[p:]
            mm = sum(o.numel() for o in lst)
            _attempt(lambda: backward(lst, good_agg(mm), inputs=rg), b.leaves, ctx, "backward/duplicate_tensor", slim, {"insert_at": p, "dup_of": q})
            n_eval += 1
    # a non-leaf / a tensor not requiring grad among the inputs: every listing position x ALLOC fresh allocations
    nl = len(desc["leaves"])
    interior = [i for i in range(nl, len(desc["deps"])) if desc["deps"][i]]
    for kind in ("input_non_leaf", "input_no_requires_grad"):
        for pos in range(len(rgidx) + 1):
            for rep in range(ALLOC):
                b, m, rg = fresh()
                if kind == "input_non_leaf":
                    cand = [b.values[i] for i in interior if not isinstance(b.values[i], tuple) and not b.values[i].is_leaf and b.values[i].requires_grad]
                    if not cand:
                        break
                    bad = cand[int(prng.integers(len(cand)))]
                else:
                    bad = _no_grad_tensor(prng)
                inputs = rg[:pos] + [bad] + rg[pos:]
                order = list(set(inputs))
                where = [id(x) for x in order].index(id(bad))
                raised = _attempt(lambda: backward(b.outputs, good_agg(m), inputs=inputs), b.leaves, ctx, f"backward/{kind}", slim,
                                  {"listing_position": pos, "set_order_position": where, "n_inputs": len(inputs)})
                if raised and len(inputs) >= 3:
                    ctx.count("w_bad_input_first_in_set_order" if where == 0 else "w_bad_input_last_in_set_order" if where == len(order) - 1
                              else "w_bad_input_interior_in_set_order")
                n_eval += 1
                ctx.evaluated(fingerprint([kind, pos, rep, slim]), nontrivial=raised and len(rg) >= 1)
    # the aggregator rejects the Jacobian
    for spec in ("const_long", "const_short", "krum", "trimmed"):
        b, m, rg = fresh()
        if spec == "const_long":
            a = aggs.make({"name": "Constant", "weights": [1.0] * (m + 1)}, torch.float64)
        elif spec == "const_short":
            if m < 2:
                continue
            a = aggs.make({"name": "Constant", "weights": [1.0] * (m - 1)}, torch.float64)
        elif spec == "krum":
            a = aggs.make({"name": "Krum", "f": m, "k": 1}, torch.float64)
        else:
            a = aggs.make({"name": "TrimmedMean", "b": m}, torch.float64)
        _attempt(lambda: backward(b.outputs, a, inputs=rg, parallel_chunk_size=[None, 1][n_eval % 2]), b.leaves, ctx, "backward/aggregator_rejects_rows", slim, {"aggregator": spec})
        n_eval += 1
    for name in ("Mean", "UPGrad", "TrimmedMean0", "GradDrop"):
        b, m, rg = fresh()
        outs = [o * float("inf") if k == 0 else o for k, o in enumerate(b.outputs)]  # the Jacobian of the first tensor is +-inf / nan
        a = aggs.make({"name": "TrimmedMean", "b": 0} if name == "TrimmedMean0" else {"name": name}, torch.float64)
        # the call is invalid only if the non-finite factor REACHES the Jacobian: an output whose derivative is exactly zero along
        # every path (relu of a negative leaf, a leaf not requiring grad) gives an all-zero, valid Jacobian (false alarm, thorough seed 14)
        probe = torch.autograd.grad(outs[0].sum(), rg, retain_graph=True, allow_unused=True) if rg and outs[0].requires_grad else ()
        if not any(g is not None and not bool(torch.isfinite(g).all()) for g in probe):
            ctx.count("unjudged:nonfinite_factor_does_not_reach_the_jacobian")
            continue
        ctx.count("w_nonfinite_jacobian_confirmed_by_autograd")
        _attempt(lambda: backward(outs, a, inputs=rg), b.leaves, ctx, "backward/aggregator_rejects_nonfinite", slim, {"aggregator": name})
        n_eval += 1
    ctx.evaluated(n=n_eval)
    ctx.sample({"entry": "backward", "leaf_shapes": [l["shape"] for l in desc["leaves"]], "ops": [n["op"] for n in desc["nodes"]],
                "kinds": "chunk/empty/duplicate/non-leaf/no-grad/aggregator at every position"})


def gen_mtl(rng, i):
    for _ in range(100):
        desc = P.gen_mtl_program(rng, "float64", n_heads=int(rng.integers(2, 5)), share_pool=False)
        if sum(1 for l in desc["pool"] if l["rg"]) >= 1 and any(l["rg"] for l in desc["shared"]):
            return {"program": desc, "pseed": int(rng.integers(1 << 30))}
    return None


def check_mtl(case, ctx):
    from torchjd import mtl_backward
    desc = case["program"]
    prng = np.random.default_rng(case["pseed"])
    slim = {"program": C02._slim({"program": desc})["program"], "pseed": case["pseed"]}
    t = len(desc["heads"])
    probe, cut = P.build_mtl(desc), P.build_mtl(desc, cut=True)
    dshared, dtasks = C02.default_lists(desc, probe, cut)
    sset = {tuple(r) for r in dshared}
    if any(tuple(r) in sset for refs in dtasks for r in refs) or not dshared:
        ctx.not_judged("overlap_or_empty_shared")
        return

    def fresh():
        b = P.build_mtl(desc)
        _pregrads(b.shared + b.pool, prng, torch.float64)
        shared = [C02.leaf_of(b, r) for r in dshared]
        tasks = [[C02.leaf_of(b, r) for r in refs] for refs in dtasks]
        return b, shared, tasks

    def agg():
        return aggs.make({"name": "Constant", "weights": [0.5 + 0.1 * k for k in range(t)]}, torch.float64)

    def run(kind, fn, b, extra=None, later=False):
        raised = _attempt(fn, b.shared + b.pool, ctx, f"mtl/{kind}", slim, extra or {})
        if raised and later:
            ctx.count("w_bad_param_in_later_task")
        ctx.evaluated(fingerprint([kind, extra, slim]), nontrivial=raised)

    for c in (0, -1, -7):
        b, sh, ta = fresh()
        run("chunk_nonpositive", lambda: mtl_backward(b.losses, b.features, agg(), tasks_params=ta, shared_params=sh, parallel_chunk_size=c), b, {"chunk": c})
    b, sh, ta = fresh()
    run("empty_features", lambda: mtl_backward(b.losses, [], agg(), tasks_params=ta, shared_params=sh), b)
    b, sh, ta = fresh()
    run("empty_losses", lambda: mtl_backward([], b.features, agg(), tasks_params=[], shared_params=sh), b)
    for i in range(t):
        b, sh, ta = fresh()
        losses = list(b.losses)
        losses[i] = torch.stack([losses[i], 2 * losses[i]])
        run("non_scalar_loss", lambda: mtl_backward(losses, b.features, agg(), tasks_params=ta, shared_params=sh), b, {"position": i}, later=i > 0)
        # a loss that is not 0-d although it holds ONE element (raw output of Linear(k, 1), a keepdim reduction): not a scalar either
        b, sh, ta = fresh()
        losses = list(b.losses)
        losses[i] = losses[i].reshape([1] if i % 2 == 0 else [1, 1])
        run("non_scalar_loss_single_element", lambda: mtl_backward(losses, b.features, agg(), tasks_params=ta, shared_params=sh), b, {"position": i}, later=i > 0)
    b, sh, ta = fresh()
    run("more_param_groups_than_losses", lambda: mtl_backward(b.losses, b.features, agg(), tasks_params=ta + [[]], shared_params=sh), b)
    b, sh, ta = fresh()
    run("fewer_param_groups_than_losses", lambda: mtl_backward(b.losses, b.features, agg(), tasks_params=ta[:-1], shared_params=sh), b)
    # ... down to NO group at all, as an empty list / tuple / exhausted iterator (which is not "unspecified")
    for empty in ([], (), iter([])):
        b, sh, ta = fresh()
        run("no_param_group_for_any_loss", lambda: mtl_backward(b.losses, b.features, agg(), tasks_params=empty, shared_params=sh), b,
            {"container": type(empty).__name__})
    for i in range(t):
        for p in range(len(dtasks[i]) + 1):
            b, sh, ta = fresh()
            ta[i] = ta[i][:p] + [sh[int(prng.integers(len(sh)))]] + ta[i][p:]
            run("shared_task_overlap", lambda: mtl_backward(b.losses, b.features, agg(), tasks_params=ta, shared_params=sh), b, {"task": i, "position": p}, later=i > 0)
    b, sh, ta = fresh()
    feats = list(b.features) + [b.features[0]]
    run("duplicate_feature", lambda: mtl_backward(b.losses, feats, agg(), tasks_params=ta, shared_params=sh), b)
    for i in range(t):
        if not dtasks[i]:
            continue
        for p in range(len(dtasks[i]) + 1):
            b, sh, ta = fresh()
            ta[i] = ta[i][:p] + [ta[i][int(prng.integers(len(ta[i])))]] + ta[i][p:]
            run("duplicate_task_param", lambda: mtl_backward(b.losses, b.features, agg(), tasks_params=ta, shared_params=sh), b, {"task": i, "position": p}, later=i > 0)
    for p in range(len(dshared) + 1):
        b, sh, ta = fresh()
        sh2 = sh[:p] + [sh[int(prng.integers(len(sh)))]] + sh[p:]
        run("duplicate_shared_param", lambda: mtl_backward(b.losses, b.features, agg(), tasks_params=ta, shared_params=sh2), b, {"position": p})
    # parameters that cannot receive a gradient: non-leaf / not requiring grad, at every position of every list
    for kind in ("non_leaf", "no_requires_grad"):
        for i in range(t):
            for p in range(len(dtasks[i]) + 1):
                b, sh, ta = fresh()
                if kind == "non_leaf":
                    h = desc["heads"][i]
                    base = len(h["features"]) + len(h["leaves"]) + len(h["around"]) + len(h.get("around_values", []))
                    cand = [v for v in b.head_values[i][base:] if not isinstance(v, tuple) and v.requires_grad and not v.is_leaf and v is not b.losses[i]]
                    if not cand:
                        continue
                    bad = cand[int(prng.integers(len(cand)))]
                else:
                    bad = _no_grad_tensor(prng)
                ta[i] = ta[i][:p] + [bad] + ta[i][p:]
                run(f"task_param_{kind}", lambda: mtl_backward(b.losses, b.features, agg(), tasks_params=ta, shared_params=sh, parallel_chunk_size=[None, 1][p % 2]),
                    b, {"task": i, "position": p}, later=i > 0)
        for p in range(len(dshared) + 1):
            b, sh, ta = fresh()
            if kind == "non_leaf":
                ns = len(b.shared)
                fids = {id(f) for f in b.features}
                cand = [v for v in b.trunk_values[ns:] if not isinstance(v, tuple) and v.requires_grad and id(v) not in fids]
                if not cand:
                    continue
                bad = cand[int(prng.integers(len(cand)))]
            else:
                bad = _no_grad_tensor(prng)
            sh2 = sh[:p] + [bad] + sh[p:]
            run(f"shared_param_{kind}", lambda: mtl_backward(b.losses, b.features, agg(), tasks_params=ta, shared_params=sh2), b, {"position": p}, later=True)
    ctx.sample({"entry": "mtl_backward", "tasks": t, "shared": dshared, "tasks_params": dtasks, "kinds": "14 kinds at every position of every list"})


def run_shard(shard, ctx):
    rng = shard_rng(ctx.seed, ID, ctx.shard_index)
    if shard["kind"] == "backward":
        run_cases(ctx, rng, shard["n"], gen_backward, check_backward)
    else:
        run_cases(ctx, rng, shard["n"], gen_mtl, check_mtl)


def replay(case, ctx):
    (check_mtl if "heads" in case["program"] else check_backward)(case, ctx)


def late_expects_grad_check(v):
    """F2: the expects-grad / requires-grad check of a parameter fires only while (or after) other parameters are accumulated."""
    return v["kind"] == "rejected_call_modified_grad" and v["detail"]["kind"] in (
        "backward/input_non_leaf", "mtl/task_param_non_leaf", "mtl/shared_param_non_leaf", "mtl/task_param_no_requires_grad",
        "mtl/shared_param_no_requires_grad")


CLASSIFIERS = {"late_expects_grad_check": late_expects_grad_check}
