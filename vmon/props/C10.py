"""C10 — The order of the objectives does not matter (DESIGN §4 C10)."""
from __future__ import annotations

import itertools

import numpy as np
import torch

from .. import matrices as M
from ..core import fingerprint
from . import _equiv as E
from ._agg import EPS, as64, to_t
from ._common import run_cases, shard_rng, split_shards

ID = "C10"
LEVEL = "exploration"
RULE = ("12 aggregators (UPGrad, DualProj, MGDA, Mean, Sum, Aligned-MTL, IMTL-G, ConFIG, CAGrad, TrimmedMean, Krum, GradDrop under a "
        "fixed seed; plus Constant) with and without preference / weight / leak vectors (permuted along with the rows) x hostile and "
        "well-conditioned matrices x ALL m! row permutations for m <= 4 (quick) / m <= 5 (thorough), 20 random permutations beyond; "
        "matrices on which a decision threshold of the algorithm is within rounding distance (score ties, ambiguous rank, argmin ties, "
        "stationarity) are not judged; non-trivial = m >= 3 and a per-row vector is configured or the rows are pairwise distinct; "
        "distinct = (matrix, aggregator) sha1")
EXHAUSTIVE_NOTE = {"quick": "all m! permutations for every judged matrix with m <= 4", "thorough": "all m! permutations for every judged matrix with m <= 5"}
NAMES = ["UPGrad", "DualProj", "MGDA", "Mean", "Sum", "AlignedMTL", "IMTLG", "ConFIG", "CAGrad", "TrimmedMean", "Krum", "GradDrop", "Constant"]
N = {"quick": 1300, "thorough": 80000}
MAXM_EXH = {"quick": 4, "thorough": 5}


def shards(tier, seed):
    # Mean on entries close to the largest finite number: the average of finite numbers is finite and does not depend on the order
    # in which they are listed (a reduction that adds first and divides last overflows for SOME orders only)
    return split_shards("random", N[tier], 16 if tier == "quick" else 32) + split_shards("mean_large", 60 if tier == "quick" else 6000, 2)


def requirements(tier):
    r = {f"judged:{n}": 15 for n in NAMES}
    r.update({f"pref_judged:{n}": 5 for n in ["UPGrad", "DualProj", "AlignedMTL", "ConFIG", "Constant", "GradDrop"]})
    r.update({"permutations_checked": 10000, "caller_owned_vector_checked": 200, "w_zero_row_with_per_row_vector": 15, "w_exhaustive_m4": 100, "w_m_ge_5": 50, "w_float32": 100, "w_mean_close_to_the_largest_finite_number": 40})
    if tier == "thorough":
        r["w_exhaustive_m5"] = 100
    return r


def gen_case(rng, i):
    name = NAMES[int(rng.integers(len(NAMES)))]
    dname = "float32" if rng.random() < 0.2 else "float64"
    pinvish = name in ("IMTLG", "ConFIG", "AlignedMTL", "CAGrad", "Krum", "MGDA")
    if rng.random() < (0.6 if pinvish else 0.3):
        m = int(rng.integers(3 if name == "Krum" else 2, 7))
        n = int(rng.integers(m, m + 5))
        J = M.well_conditioned(rng, m, n, cond=float(10 ** rng.uniform(0, 2)), scale=float(10 ** rng.uniform(-2, 3)))
        klass = "well_conditioned"
    else:
        J, klass = M.gen(rng, max_m=7, max_n=8)
    if name == "Krum" and rng.random() < 0.4:
        J, klass = M.krum_hostile(rng, dname)
    if name != "Krum" and J.shape[0] >= 2 and rng.random() < 0.15:
        # an objective whose gradient vanishes, at a random position (its preference / weight does not vanish)
        J = J.copy()
        J[int(rng.integers(J.shape[0]))] = 0.0
        klass += "+zero_row"
    desc = E.config(rng, name, J.shape[0], dname, with_pref=True if name == "Constant" else None)
    if desc is None:
        return None
    return {"J": J.tolist(), "class": klass, "dtype": dname, "agg": desc, "pseed": int(rng.integers(1 << 30)), "seed": int(rng.integers(1 << 20))}


def check_case(case, ctx):
    dname, desc = case["dtype"], case["agg"]
    name = desc["name"]
    J64 = np.array(case["J"], dtype=np.float64).reshape(len(case["J"]), -1)
    Jt = to_t(J64, dname)
    J = as64(Jt)
    m, n = J.shape
    if not np.isfinite(J).all():
        ctx.not_judged("nonfinite_after_cast")
        return
    g = E.guard(desc, J, dname)
    if g:
        ctx.not_judged(f"{name}:{g}")
        return
    # the per-row vector lives in ONE tensor owned by the caller (as in user code): the aggregator is built from it, and the permuted
    # vectors are derived from that same tensor AFTER the first call - an aggregator that modifies it in place is thereby visible
    vkey = next((k for k in ("pref", "weights", "leak") if desc.get(k) is not None), None)
    owner = None
    if vkey is not None:
        odt = torch.float64 if (desc.get("pref_dtype") or dname) == "float64" else torch.float32
        owner = torch.tensor(desc[vkey], dtype=odt)
        owner_before = owner.clone()
        desc = {**desc, "_owned": owner}
    out1, err1, rec1 = E.run(desc, Jt, seed=case["seed"])
    if err1 is not None:
        ctx.violation("aggregator_raised", case, {"error": repr(err1)[:300], "on": "J"})
        ctx.evaluated()
        return
    if rec1["rand"]:
        ctx.count("rng_recorder_hits")
    if name == "GradDrop":
        if not rec1["rand"]:
            ctx.not_judged("GradDrop:rand_recorder_not_hit")
            return
        if not E.graddrop_margin_ok(J, rec1["rand"][0].double().numpy(), dname):
            ctx.not_judged("GradDrop:draw_at_threshold")
            return
    s = M.smax(J)
    w1 = rec1["weights"]
    wl1 = float(np.abs(w1).sum()) if w1 is not None and w1.shape == (m,) else 1.0
    scale = max(s * max(wl1, 1.0, E.config_l1(desc)), float(np.linalg.norm(out1)), 1e-300)
    exh = m <= MAXM_EXH[ctx.tier]
    if exh:
        perms = [list(p) for p in itertools.permutations(range(m))][1:]
    else:
        prng = np.random.default_rng(case["pseed"])
        perms = [list(map(int, prng.permutation(m))) for _ in range(20)]
    eps = EPS[dname]
    t = 4 * eps * np.sqrt(m) if name in ("TrimmedMean",) else E.tau(name, dname, desc, J)
    if name == "Krum" and s > 0:
        # the same rows are selected whatever the order (score gap certified by the guard): error = rounding of an average of k rows
        _, scale = E.krum_selection(desc, J)
        t = 4 * (desc["k"] + 2) * eps
    for perm in perms:
        J2t = Jt[torch.tensor(perm, dtype=torch.long)] if perm else Jt
        d2 = E.permute_config({k: v for k, v in desc.items() if k != "_owned"}, perm)
        if owner is not None:
            d2["_owned"] = owner[torch.tensor(perm, dtype=torch.long)]
        out2, err2, rec2 = E.run(d2, J2t, seed=case["seed"])
        ctx.count("permutations_checked")
        if err2 is not None:
            ctx.violation("aggregator_raised", case, {"error": repr(err2)[:300], "on": f"rows permuted by {perm}"})
            break
        err = float(np.linalg.norm(out2 - out1))
        ctx.maximum(f"{name}_{dname}", err / scale)
        if not err <= t * scale:
            ctx.violation("depends_on_the_order_of_the_objectives", case, {"permutation": perm, "A(J)": out1.tolist(), "A(J[perm])": out2.tolist(),
                                                                             "error_over_scale": err / scale})
            break
    if owner is not None:
        ctx.count("caller_owned_vector_checked")
        if not torch.equal(owner, owner_before):
            ctx.violation("aggregator_modified_the_callers_vector", {k: v for k, v in case.items()}, {"before": owner_before.tolist(), "after": owner.tolist()})
    ctx.count(f"judged:{name}")
    if any(desc.get(k) is not None for k in ("pref", "weights", "leak")):
        ctx.count(f"pref_judged:{name}")
    if exh and m == 4:
        ctx.count("w_exhaustive_m4")
    if exh and m == 5:
        ctx.count("w_exhaustive_m5")
    if m >= 5:
        ctx.count("w_m_ge_5")
    if dname == "float32":
        ctx.count("w_float32")
    if any(desc.get(k) is not None for k in ("pref", "weights", "leak")) and (np.linalg.norm(J, axis=1) == 0).any() and s > 0:
        ctx.count("w_zero_row_with_per_row_vector")
    distinct_rows = len({tuple(r) for r in J.tolist()}) == m
    ctx.evaluated(fingerprint(case), nontrivial=m >= 3 and (distinct_rows or any(desc.get(k) is not None for k in ("pref", "weights", "leak"))))
    ctx.klass(f"class={case['class']}")
    ctx.sample({"J": np.round(J, 4).tolist(), "agg": case["agg"], "dtype": dname, "permutations": "all" if exh else 20, "class": case["class"]})


def gen_mean_large(rng, i):
    dname = "float32" if rng.random() < 0.5 else "float64"
    m, n = int(rng.integers(2, 6)), int(rng.integers(1, 5))
    J = rng.uniform(0.35, 0.95, size=(m, n)) * rng.choice([-1.0, 1.0], size=(m, n)) * float(torch.finfo(getattr(torch, dname)).max)
    return {"J": J.tolist(), "class": "entries_close_to_the_largest_finite_number", "dtype": dname, "agg": {"name": "Mean"}, "mean_large": True}


def check_mean_large(case, ctx):
    dname = case["dtype"]
    J64 = np.array(case["J"], dtype=np.float64).reshape(len(case["J"]), -1)
    Jt = to_t(J64, dname)
    J = as64(Jt)
    m = J.shape[0]
    big = float(np.abs(J).max())
    exact = (J / m).sum(axis=0)  # float64 reference: every term is below max / m
    vio = None
    for perm in itertools.permutations(range(m)):
        out, err, _ = E.run(case["agg"], Jt[list(perm)].contiguous(), seed=0)
        ctx.count("permutations_checked")
        if err is not None:
            vio = ("mean_of_finite_rows_depends_on_their_order_or_overflows" if "non-finite" in repr(err) else "aggregator_raised",
                   {"permutation": list(perm), "error": repr(err)[:200]})
            break
        if not np.isfinite(out).all() or not np.abs(out - exact).max() <= 16 * m * EPS[dname] * big:
            vio = ("mean_of_finite_rows_depends_on_their_order_or_overflows", {"permutation": list(perm), "output": out.tolist(), "mean": exact.tolist()})
            break
    if vio:
        ctx.violation(vio[0], case, vio[1])
    ctx.count("w_mean_close_to_the_largest_finite_number")
    ctx.evaluated(fingerprint(case), nontrivial=m >= 3)
    ctx.sample({"J": J.tolist(), "agg": case["agg"], "dtype": dname, "permutations": "all", "class": case["class"]})


def run_shard(shard, ctx):
    if shard["kind"] == "mean_large":
        run_cases(ctx, shard_rng(ctx.seed, ID, ctx.shard_index), shard["n"], gen_mean_large, check_mean_large)
        return
    run_cases(ctx, shard_rng(ctx.seed, ID, ctx.shard_index), shard["n"], gen_case, check_case)


def replay(case, ctx):
    if case.get("mean_large"):
        return check_mean_large(case, ctx)
    check_case(case, ctx)


def waivers(counters):
    if counters.get("rng_recorder_hits", 0) == 0:  # GradDrop's uniform draws not observable: its cases are not judged
        return {"judged:GradDrop", "pref_judged:GradDrop"}
    return set()
