"""C11 — Aggregators are total, pure, stateless and positively homogeneous (DESIGN §4 C11)."""
from __future__ import annotations

import numpy as np
import torch

from .. import aggs, matrices as M
from ..core import fingerprint
from . import _equiv as E
from ._agg import DT, EPS, as64, call, shape_ok, to_t
from ._common import run_cases, shard_rng, split_shards

ID = "C11"
LEVEL = "exploration"
RULE = ("15 aggregator classes (all but NashMTL) x dtype x shape classes (m=1, n=1, m>n, zero rows, duplicate rows, generic): (i) scale "
        "ladder over 27 decades (float32: 1e-12..1e15) / 200 decades (float64: 1e-100..1e100) plus fine rungs just above norm_eps: finite, "
        "right shape / dtype, A(tJ) = t A(J) (UPGrad / DualProj / CAGrad only while min(s, ts) >= 2 norm_eps; ill-posed inputs not judged); "
        "(ii) rejection matrix: not 2-d, nan / +inf / -inf anywhere, row count contradicting weights / pref / leak / trim / byzantine "
        "numbers => ValueError; (iii) call histories of 1-5 unrelated matrices before the call vs a fresh instance (bitwise); (iv) equal "
        "seeds => equal results; (v) the always-on purity / shape / dtype / finiteness contract on every Aggregator call of the run; "
        "non-trivial = a ladder case with >= 2 distinct non-zero rows, or a rejection / history case; distinct = case sha1")
ASSUMPTIONS = ["homogeneity judged in units of s |w|_1 with tau = 1e-9 (float64) / 1e-4 (float32), CAGrad 1e-6 / 5e-3",
               "inputs on which a decision threshold of the algorithm is within rounding distance are not judged (guards of C08)",
               "m >= 1 and n >= 1: matrices with zero rows or zero columns are outside the explored domain (observed on the pinned tree, not "
               "judged: UPGrad / DualProj / CAGrad raise RuntimeError on m x 0, Mean / UPGrad / DualProj / AlignedMTL ZeroDivisionError on 0 x n; "
               "backward() never builds such a matrix unless a requested input has no element)"]
NAMES = E.ALL
N = {"quick": (1500, 1, 900), "thorough": (90000, 40, 54000)}
LADDER = {"float32": [-12, -9, -6, -3, 3, 6, 9, 12, 15], "float64": [-100, -75, -50, -25, -10, -3, 3, 10, 25, 50, 75, 100]}
FINE = [3e-4, 1e-3, 3e-3, 1e-2, 1e-1]


def shards(tier, seed):
    nl, nrep, nh = N[tier]
    k = 10 if tier == "quick" else 20
    out = split_shards("ladder", nl, k) + [{"kind": "rejection", "reps": nrep}] + split_shards("history", nh, 4 if tier == "quick" else 8)
    if tier == "thorough":
        out.append({"kind": "repo_tests_under_contracts"})
    return out


def requirements(tier):
    r = {f"ladder_judged:{n}": 20 for n in NAMES}
    r.update({"homogeneity_rungs_checked": 5000, "finite_rungs_checked": 8000, "rejections_checked": 200, "history_independence_checked": 300,
              "equal_seed_checked": 100, "contract_evaluations_aggregator": 10000, "w_m_equals_1": 30, "w_n_equals_1": 30, "w_m_gt_n": 100,
              "w_zero_or_duplicate_rows": 100, "w_fine_rung_above_norm_eps_with_conflict": 50, "w_float32": 300, "w_seed_changes_result": 10, "w_history_call_in_other_dtype": 200, "w_column_major_input": 100, "w_very_wide": 30, "w_more_than_25_rows": 30})
    if tier == "thorough":
        r["repo_tests_contract_evaluations"] = 1000
    return r


SHAPE_CLASSES = ["m1", "n1", "tall", "zero_rows", "duplicated", "generic", "conflict", "generic", "conflict", "very_wide", "clustered_many_rows"]


def gen_ladder(rng, i):
    name = NAMES[int(rng.integers(len(NAMES)))]
    dname = "float32" if rng.random() < 0.4 else "float64"
    sc = SHAPE_CLASSES[int(rng.integers(len(SHAPE_CLASSES)))]
    if sc == "m1":
        J = rng.standard_normal((1, int(rng.integers(1, 8))))
    elif sc == "n1":
        J = rng.standard_normal((int(rng.integers(1, 7)), 1))
    elif sc == "tall":
        J, _ = M.gen(rng, klass="tall", max_m=7)
    elif sc == "zero_rows":
        J, _ = M.gen(rng, klass="zero_rows", max_m=6, max_n=8)
    elif sc == "duplicated":
        J, _ = M.gen(rng, klass="duplicated", max_m=6, max_n=8)
    elif sc == "clustered_many_rows":
        # > 25 rows sharing a component far larger than their mutual differences (many workers with nearly equal gradients)
        m = int(rng.integers(26, 41))
        n = int(rng.integers(4, 12))
        common = rng.standard_normal(n) * float(10 ** rng.uniform(3, 4.2) if dname == "float32" else 10 ** rng.uniform(6, 8))
        J = common + rng.standard_normal((m, n))
    elif sc == "very_wide":
        m = int(rng.integers(2, 5))
        J = rng.standard_normal((m, [5000, 50000][int(rng.integers(2))])) * (10.0 ** rng.uniform(-0.5, 0.5, size=(m, 1)))
        if rng.random() < 0.5:
            J[1] = -0.7 * J[0] + 0.3 * J[1]  # a conflict
    elif sc == "conflict":
        J, _ = M.gen(rng, klass="antiparallel", m=int(rng.integers(2, 6)), max_n=8)
    else:
        m = int(rng.integers(2, 6))
        J = M.well_conditioned(rng, m, int(rng.integers(m, m + 5)), cond=float(10 ** rng.uniform(0, 1.5)))
    s = M.smax(J)
    if s > 0:
        J = J / s  # base matrix with largest singular value 1
    desc = E.config(rng, name, J.shape[0], dname)
    if desc is None:
        return None
    return {"J": J.tolist(), "shape_class": sc, "dtype": dname, "agg": desc, "seed": int(rng.integers(1 << 20))}


def check_ladder(case, ctx):
    dname, desc = case["dtype"], case["agg"]
    name = desc["name"]
    J0 = np.array(case["J"], dtype=np.float64).reshape(len(case["J"]), -1)
    m, n = J0.shape
    col_major = bool(case["seed"] % 5 == 0)  # every 5th case: matrices handed over in a column-major (non-contiguous) layout
    Jt = to_t(J0, dname, column_major=col_major)
    if col_major:
        ctx.count("w_column_major_input")
    J = as64(Jt)
    base, err, rec0 = E.run(desc, Jt, seed=case["seed"])
    if err is not None:
        ctx.violation("aggregator_raised_on_finite_matrix", case, {"error": repr(err)[:300], "scale": 1.0})
        ctx.evaluated()
        return
    if not np.isfinite(base).all():
        ctx.violation("result_not_finite", case, {"scale": 1.0, "output": base.tolist()})
        ctx.evaluated()
        return
    orders = E.pcgrad_orders(rec0, m) if name == "PCGrad" else None
    if rec0["randperm"]:
        ctx.count("randperm_recorder_hits")
    g0 = E.guard(desc, J, dname, orders=orders)
    if name == "GradDrop" and rec0["rand"] and not E.graddrop_margin_ok(J, rec0["rand"][0].double().numpy(), dname):
        g0 = "graddrop_draw_at_threshold"
    s0 = M.smax(J)
    w0 = rec0["weights"]
    wl = float(np.abs(w0).sum()) if w0 is not None and w0.shape == (m,) else 1.0
    scale0 = max(s0 * max(wl, 1.0, E.config_l1(desc)), float(np.linalg.norm(base)), 1e-300)
    ne = desc.get("norm_eps", 1e-4)
    conflict = M.has_conflict(J)
    rungs = [10.0 ** k for k in LADDER[dname]] + FINE
    vio = None
    for t in rungs:
        Xt = to_t(J0 * t, dname, column_major=col_major)
        X = as64(Xt)
        if not np.isfinite(X).all():
            continue
        out, err, rec = E.run(desc, Xt, seed=case["seed"])
        ctx.count("finite_rungs_checked")
        if err is not None:
            vio = ("aggregator_raised_on_finite_matrix", {"error": repr(err)[:300], "scale": t})
            break
        if not np.isfinite(out).all():
            vio = ("result_not_finite", {"scale": t, "output": out.tolist()})
            break
        # homogeneity A(tJ) = t A(J)
        if g0:
            continue
        sx = M.smax(X)
        if name in ("UPGrad", "DualProj", "CAGrad") and min(s0, sx) < 2 * ne:
            continue
        gx = E.guard(desc, X, dname, orders=orders)
        if gx:
            continue
        d = float(np.linalg.norm(out / t - base))
        ctx.maximum(f"homogeneity_{name}_{dname}", d / scale0)
        ctx.count("homogeneity_rungs_checked")
        if t in FINE and conflict and name in ("UPGrad", "DualProj", "CAGrad"):
            ctx.count("w_fine_rung_above_norm_eps_with_conflict")
        if not d <= E.tau(name, dname, desc, J) * scale0:
            vio = ("not_positively_homogeneous", {"scale": t, "A(tJ)/t": (out / t).tolist(), "A(J)": base.tolist(), "error_over_scale": d / scale0,
                                                  "output_is_zero": bool((out == 0).all()), "base_is_zero": bool((base == 0).all())})
            break
    if vio:
        ctx.violation(vio[0], case, vio[1])
    if g0:
        ctx.not_judged(f"{name}:{g0}")
    else:
        ctx.count(f"ladder_judged:{name}")
    sc = case["shape_class"]
    if m == 1:
        ctx.count("w_m_equals_1")
    if n == 1:
        ctx.count("w_n_equals_1")
    if m > n:
        ctx.count("w_m_gt_n")
    if sc in ("zero_rows", "duplicated"):
        ctx.count("w_zero_or_duplicate_rows")
    if dname == "float32":
        ctx.count("w_float32")
    nz = {tuple(r) for r in J.tolist() if any(r)}
    ctx.evaluated(fingerprint(case), nontrivial=len(nz) >= 2)
    if n >= 1000:
        ctx.count("w_very_wide")
    if m > 25:
        ctx.count("w_more_than_25_rows")
    ctx.sample({"J": np.round(J[:, :8], 4).tolist(), "columns": n, "agg": desc, "dtype": dname, "shape_class": sc, "rungs": len(rungs)})


# ------------------------------------------------------------------------------------------------ rejection
def rejection_cases(rng):
    """(aggregator description, bad input builder name, dtype) for every documented-weighted aggregator, GradDrop and TrimmedMean."""
    out = []
    m = 4
    for dname in ("float64", "float32"):
        for name in NAMES:
            desc = E.config(rng, name, m, dname, with_pref=False)
            for bad in ("0d", "1d", "3d", "nan", "+inf", "-inf"):
                out.append((desc, bad, dname, m))
        pref = [0.5, 1.0, 1.5, 2.0]
        for name, key in (("Constant", "weights"), ("UPGrad", "pref"), ("DualProj", "pref"), ("AlignedMTL", "pref"), ("ConFIG", "pref"), ("GradDrop", "leak")):
            # every length of the configured vector (a single entry included: it must not be broadcast) against fewer / more rows
            for L in (1, 2, 3, 4, 6):
                vals = [0.1, 0.4, 0.6, 0.9, 0.3, 0.7][:L] if key == "leak" else (pref + [0.7, 1.2])[:L]
                for mm in sorted({1, 2, 3, 5, 7, L - 1, L + 1} - {0, L}):
                    out.append(({"name": name, key: vals}, "rows", dname, mm))
        for b in (1, 2, 3):
            for mm in range(1, 2 * b + 1):
                out.append(({"name": "TrimmedMean", "b": b}, "rows", dname, mm))
        for f in (0, 1, 2):
            for mm in range(1, f + 3):
                out.append(({"name": "Krum", "f": f, "k": 1}, "rows", dname, mm))
        for k in (4, 6):
            out.append(({"name": "Krum", "f": 0, "k": k}, "rows", dname, 3))
    return out


def run_rejection(shard, ctx):
    rng = shard_rng(ctx.seed, ID, ctx.shard_index)
    for rep in range(shard["reps"]):
        for desc, bad, dname, m in rejection_cases(rng):
            n = int(rng.integers(1, 6))
            A = rng.standard_normal((m, n))
            if bad == "0d":
                x = torch.tensor(1.5, dtype=DT[dname])
            elif bad == "1d":
                x = to_t(A[:, 0], dname)
            elif bad == "3d":
                x = to_t(A, dname).unsqueeze(0)
            elif bad in ("nan", "+inf", "-inf"):
                A[int(rng.integers(m)), int(rng.integers(n))] = {"nan": np.nan, "+inf": np.inf, "-inf": -np.inf}[bad]
                x = to_t(A, dname)
            else:
                x = to_t(A, dname)
            case = {"agg": desc, "bad_input": bad, "dtype": dname, "input_shape": list(x.shape)}
            try:
                agg = aggs.make(desc, DT[dname])
            except Exception as e:
                ctx.inconclusive(f"could not build {desc}: {e!r}")
                continue
            out, err, _ = call(agg, x)
            ctx.count("rejections_checked")
            if err is None:
                ctx.violation("invalid_matrix_accepted", case, {"returned": out.detach().double().reshape(-1).tolist()[:8] if isinstance(out, torch.Tensor) else repr(out)})
            elif not isinstance(err, ValueError):
                ctx.violation("invalid_matrix_rejected_with_wrong_exception", case, {"error": repr(err)[:200]})
            ctx.evaluated(fingerprint([case, rep]), nontrivial=True)
    ctx.sample({"rejection_matrix": "15 aggregators x {0-d,1-d,3-d,nan,+inf,-inf} + row-count contradictions for weights/pref/leak/trim/byzantine/selected"})


# ------------------------------------------------------------------------------------------------ history independence, seeds
def gen_history(rng, i):
    name = NAMES[int(rng.integers(len(NAMES)))]
    dname = "float32" if rng.random() < 0.3 else "float64"
    m = int(rng.integers(3, 6))
    n = int(rng.integers(1, 7))
    desc = E.config(rng, name, m, dname)
    J, _ = M.gen(rng, m=m, n=n)
    hist, hist_dtypes = [], []
    for _ in range(int(rng.integers(1, 6))):
        same_shape = rng.random() < 0.5
        H, _ = M.gen(rng, m=m, n=n if same_shape else int(rng.integers(1, 7)))
        hist.append(H.tolist())
        # earlier calls may be in ANOTHER dtype than the call under test (they may be rejected for it: that is fine)
        hist_dtypes.append(dname if rng.random() < 0.6 else ("float32" if dname == "float64" else "float64"))
    # the caller may keep ONE pre-allocated Jacobian buffer and refill it in place before every call (same tensor object, new content)
    return {"J": J.tolist(), "history": hist, "history_dtypes": hist_dtypes, "agg": desc, "dtype": dname, "seed": int(rng.integers(1 << 20)),
            "buffer": bool(rng.random() < 0.4)}


def check_history(case, ctx):
    dname, desc = case["dtype"], case["agg"]
    name = desc["name"]
    Jt = to_t(np.array(case["J"], dtype=np.float64).reshape(len(case["J"]), -1), dname)
    used = aggs.make(desc, DT[dname])
    hd = case.get("history_dtypes") or [dname] * len(case["history"])
    buf, refills = None, 0
    for k, H in enumerate(case["history"]):
        torch.manual_seed(1000 + k)
        Ht = to_t(np.array(H, dtype=np.float64).reshape(len(H), -1), hd[k])
        if case.get("buffer") and Ht.shape == Jt.shape and Ht.dtype == Jt.dtype:
            if buf is None:
                buf = Ht
            else:
                buf.copy_(Ht)
                refills += 1
            Ht = buf
        _, err, _ = call(used, Ht)
        if err is not None:
            ctx.count("obs_history_call_rejected")  # a rejected earlier call must not leave a trace either
        if hd[k] != dname:
            ctx.count("w_history_call_in_other_dtype")
    torch.manual_seed(case["seed"])
    if buf is not None:
        buf.copy_(Jt)  # the judged call sees the SAME tensor object as earlier calls, refilled in place
        refills += 1
        ctx.count("w_matrix_buffer_refilled_in_place")
    o1, e1, _ = call(used, buf if buf is not None else Jt)
    fresh = aggs.make(desc, DT[dname])
    torch.manual_seed(case["seed"])
    o2, e2, _ = call(fresh, Jt)
    if (e1 is None) != (e2 is None):
        ctx.violation("outcome_depends_on_call_history", case, {"after_history": repr(e1)[:200], "fresh": repr(e2)[:200]})
    elif e1 is None:
        if o1.shape != o2.shape or not bool(((o1 == o2) | (o1.isnan() & o2.isnan())).all()):
            ctx.violation("result_depends_on_call_history", case, {"after_history": as64(o1).tolist(), "fresh_instance": as64(o2).tolist()})
        ctx.count("history_independence_checked")
        if name in E.RANDOMISED:
            torch.manual_seed(case["seed"])
            o3, _, _ = call(fresh, Jt)
            torch.manual_seed(case["seed"])
            o4, _, _ = call(aggs.make(desc, DT[dname]), Jt)
            ctx.count("equal_seed_checked")
            if not (torch.equal(o2, o3) and torch.equal(o3, o4)):
                ctx.violation("equal_seeds_give_different_results", case, {"first": as64(o2).tolist(), "second": as64(o3).tolist(), "third": as64(o4).tolist()})
            torch.manual_seed(case["seed"] + 1)
            o5, _, _ = call(fresh, Jt)
            if o5 is not None and not torch.equal(o5, o2):
                ctx.count("w_seed_changes_result")
    ctx.evaluated(fingerprint(case), nontrivial=True)
    ctx.sample({"agg": desc, "history_shapes": [[len(H), len(H[0])] for H in case["history"]], "J_shape": list(Jt.shape)})


def run_repo_tests(ctx, which="aggregator"):
    """Thorough tier: the repository's own tests with the contracts on; zero contract failures and > 1000 evaluations required."""
    import json, os, subprocess, sys, tempfile
    from .. import REPO, ROOT
    rep = tempfile.NamedTemporaryFile(suffix=".json", delete=False).name
    env = dict(os.environ, TORCHJD_VERIF="1", VERIF_CONTRACT_REPORT=rep, PYTHONPATH=os.pathsep.join([os.path.join(REPO, "src"), ROOT]), PYTHONDONTWRITEBYTECODE="1")
    p = subprocess.run([sys.executable, "-m", "pytest", "-q", "-x", "-p", "vmon.pytest_plugin", "-p", "no:cacheprovider", "tests"], cwd=REPO, env=env,
                       capture_output=True, text=True, timeout=1800)
    try:
        with open(rep) as f:
            r = json.load(f)
    except Exception:
        ctx.inconclusive("repository tests under contracts produced no report: " + (p.stdout or "")[-300:])
        return
    finally:
        try:
            os.unlink(rep)
        except OSError:
            pass
    ctx.count("repo_tests_contract_evaluations", r["stats"].get(f"{which}_evaluations", 0))
    ctx.notes["repo_tests_under_contracts"] = {"pytest_exit": r["exitstatus"], "stats": r["stats"], "tail": (p.stdout or "").strip().splitlines()[-1:]}
    for v in r["violations"]:
        if v["contract"].startswith(which):
            ctx.violation("contract:" + v["contract"] + "(repository tests)", {"aggregator_or_transform": v["where"]}, v["detail"])
    ctx.evaluated(n=1)


def run_shard(shard, ctx):
    rng = shard_rng(ctx.seed, ID, ctx.shard_index)
    if shard["kind"] == "ladder":
        run_cases(ctx, rng, shard["n"], gen_ladder, check_ladder)
    elif shard["kind"] == "rejection":
        run_rejection(shard, ctx)
    elif shard["kind"] == "history":
        run_cases(ctx, rng, shard["n"], gen_history, check_history)
    else:
        run_repo_tests(ctx)


def replay(case, ctx):
    if "history" in case:
        check_history(case, ctx)
    elif "bad_input" in case:
        print("rejection case: re-run ./check C11 (the rejection matrix is deterministic)")
    else:
        check_ladder(case, ctx)


def imtlg_absolute_threshold(v):
    """F5: IMTL-G returns the zero vector for large scales (absolute threshold on a quantity that scales like 1/scale)."""
    return (v["kind"] == "not_positively_homogeneous" and v["case"]["agg"]["name"] == "IMTLG" and v["detail"].get("output_is_zero") is True
            and v["detail"].get("base_is_zero") is False)


def config_unchecked_input(v):
    """F4: ConFIG lacks the matrix / finiteness checks of the other weighted aggregators."""
    return v["kind"] in ("invalid_matrix_accepted", "invalid_matrix_rejected_with_wrong_exception") and v["case"]["agg"]["name"] == "ConFIG" \
        and v["case"]["bad_input"] in ("0d", "1d", "3d", "nan", "+inf", "-inf")


CLASSIFIERS = {"imtlg_absolute_threshold": imtlg_absolute_threshold, "config_unchecked_input": config_unchecked_input}


def waivers(counters):
    if counters.get("randperm_recorder_hits", 0) == 0:  # PCGrad judged for m <= 4 only (all-orders guard): its quota is waived
        return {"ladder_judged:PCGrad"}
    return set()
