"""C02 — mtl_backward(): own-task gradients for heads, aggregated Jacobian for the trunk (DESIGN §4 C02)."""
from __future__ import annotations

import numpy as np
import torch

from .. import aggs, autojac as aj, programs as P
from ..core import fingerprint
from ._common import run_cases, shard_rng, split_shards, tolist

ID = "C02"
LEVEL = "exploration"
RULE = ("random trunk/heads programs (1-3 trunk leaves -> 1-3 mutually independent features of any shape; 1-4 heads over "
        "features + own / shared-between-heads / unused leaves ending in a 0-d loss) x explicit or defaulted parameter lists "
        "(lists, tuples, sets, dict views and one-shot generators) x chunk sizes x row-order-sensitive aggregators through a "
        "recording proxy (Constant with distinct weights, Krum, UPGrad(pref), GradDrop(leak)) or raw Constant; non-trivial = "
        ">= 2 losses and >= 1 task parameter; distinct = distinct case descriptions")
ASSUMPTIONS = ["reference = torch.autograd on a twin graph: row i = VJP of features w.r.t. shared parameters with cotangent "
               "d loss_i / d features computed on a cut twin (heads rebuilt on detached features)"]
N = {"quick": 1400, "thorough": 600000}


def shards(tier, seed):
    return split_shards("random", N[tier], 16 if tier == "quick" else 32)


def requirements(tier):
    return {"jseen_checked": 200, "shared_slice_bitwise_checked": 200, "task_param_checked": 300, "raw_end_to_end_checked": 40,
            "w_heads_share_param": 20, "w_head_ignores_feature": 20, "w_two_features": 50, "w_generator_params": 30,
            "w_three_tasks": 50, "w_param_listed_but_unused": 10, "w_default_lists": 50, "w_explicit_lists": 50,
            "w_pre_existing_grad": 50, "w_task_without_params": 10, "w_aggregator_with_user_hooks": 15, "w_two_losses_with_equal_values": 10}


def gen_agg(rng, t, proxy):
    if not proxy:
        d = {"name": "Constant", "weights": aggs.random_weights(rng, t)}
        if rng.random() < 0.4:  # user hooks on the aggregator object are part of `aggregator(J)`
            d["hook"] = {"post": float(np.round(rng.uniform(0.2, 3.0), 2)), "pre": None}
        return d
    r = rng.random()
    if r < 0.4:
        return {"name": "Constant", "weights": aggs.random_weights(rng, t)}
    if r < 0.6:
        return {"name": "UPGrad", "pref": [float(np.round(x, 3)) for x in rng.uniform(0.1, 2.0, size=t)]}
    if r < 0.75 and t >= 3:
        return {"name": "Krum", "f": 0, "k": 1}
    if r < 0.9:
        return {"name": "GradDrop", "leak": [float(np.round(x, 3)) for x in rng.uniform(0, 1, size=t)]}
    return {"name": "Mean"}


CONT = ["list", "tuple", "set", "gen", "dictkeys"]


def gen_case(rng, i):
    dtype = "float32" if rng.random() < 0.15 else "float64"
    around = bool(rng.random() < 0.12)
    desc = P.gen_mtl_program(rng, dtype, allow_around=around)
    t = len(desc["heads"])
    uses_around = any(h["around"] for h in desc["heads"])
    srg = [i for i, l in enumerate(desc["shared"]) if l["rg"]]
    prg = [i for i, l in enumerate(desc["pool"]) if l["rg"]]
    around_leaves = sorted({a for h in desc["heads"] for a in h["around"] if desc["shared"][a]["rg"]})
    shared_mode = "explicit" if (uses_around or rng.random() < 0.55) else "default"
    tasks_mode = "explicit" if (uses_around or rng.random() < 0.55) else "default"
    shared_list = None
    if shared_mode == "explicit":
        cand = [i for i in srg if i not in around_leaves]
        if rng.random() < 0.12:
            shared_list = []  # frozen trunk: only the heads are trained (shared_params given as an empty collection)
        else:
            if not cand:
                return None
            k = int(rng.integers(1, len(cand) + 1))
            shared_list = [int(x) for x in rng.choice(cand, size=k, replace=False)]
    tasks_lists = None
    if tasks_mode == "explicit":
        tasks_lists = []
        for h in desc["heads"]:
            own = [["p", int(i)] for i in h["leaves"] if i in prg]
            lst = [x for x in own if rng.random() < 0.8]
            # a parameter listed by this task although another head (or nobody) uses it
            extra = [["p", int(i)] for i in prg if i not in h["leaves"] and rng.random() < 0.15]
            lst += extra
            lst += [["s", int(a)] for a in h["around"] if a in around_leaves]
            rng.shuffle(lst)
            tasks_lists.append(lst)
    proxy = bool(rng.random() < 0.8)
    pre = {"s": [i for i in srg if rng.random() < 0.3], "p": [i for i in prg if rng.random() < 0.3]}
    return {"program": desc, "shared_mode": shared_mode, "shared_list": shared_list,
            "shared_container": CONT[int(rng.integers(len(CONT)))], "tasks_mode": tasks_mode, "tasks_lists": tasks_lists,
            "tasks_containers": [CONT[int(rng.integers(len(CONT)))] for _ in range(t)],
            "outer_container": ["list", "tuple"][int(rng.integers(2))],
            "chunk": [None, 1, 2, 3, t, t + 2][int(rng.integers(6))], "agg": gen_agg(rng, t, proxy), "proxy": proxy,
            "pregrad": pre, "pseed": int(rng.integers(1 << 30)),
            # a head that reaches a trunk leaf around the features shares trunk nodes with the other heads and with the
            # shared Jacobian: only meaningful with retain_graph=True (C13's quantifier excludes the other case)
            "retain": bool(uses_around or rng.random() < 0.3),
            "features_as_tensor": bool(len(desc["features"]) == 1 and rng.random() < 0.5)}


def _slim(case):
    c = dict(case)
    p = dict(c["program"])  # (the generator's symbolic deps stay in the recorded case: replays need them)
    c["program"] = p
    return c


def leaf_of(b, ref):
    return b.shared[ref[1]] if ref[0] == "s" else b.pool[ref[1]]


def reference(desc, twin, cut, shared_refs, task_refs):
    """Reference shared Jacobian blocks (rows = losses, through the features only) and task-parameter gradients."""
    S = [leaf_of(twin, r) for r in shared_refs]
    rows = []
    for i, loss_cut in enumerate(cut.losses):
        cot = torch.autograd.grad(loss_cut, cut.features, retain_graph=True, allow_unused=True) if loss_cut.requires_grad else [None] * len(cut.features)
        fs = [f for f, c in zip(twin.features, cot) if c is not None]
        cs = [c for c in cot if c is not None]
        if fs and S:
            gs = torch.autograd.grad(fs, S, grad_outputs=cs, retain_graph=True, allow_unused=True)
        else:
            gs = [None] * len(S)
        rows.append([torch.zeros(s.numel(), dtype=s.dtype) if g is None else g.reshape(-1).detach().clone() for g, s in zip(gs, S)])
    blocks = [torch.stack([r[j] for r in rows]) for j in range(len(S))]
    task = {}
    for i, refs in enumerate(task_refs):
        for r in refs:
            p = leaf_of(twin, r)
            g = torch.autograd.grad(twin.losses[i], p, retain_graph=True, allow_unused=True)[0]
            g = torch.zeros_like(p) if g is None else g.detach().clone()
            task.setdefault(tuple(r), []).append(g)
    return blocks, task


def default_lists(desc, twin, cut):
    """Reference default parameter sets (C12 decides these in depth; here they only name the requested leaves)."""
    srg = [["s", i] for i, l in enumerate(desc["shared"]) if l["rg"]]
    prg = [["p", i] for i, l in enumerate(desc["pool"]) if l["rg"]]
    reach = P.reachable(twin.features, [leaf_of(twin, r) for r in srg]) if srg else []
    shared = [r for r, ok in zip(srg, reach) if ok]
    tasks = []
    allrefs = srg + prg
    for i, loss in enumerate(cut.losses):
        leaves = [leaf_of(cut, r) for r in allrefs]
        ok = P.reachable([loss], leaves) if leaves else []
        tasks.append([r for r, o in zip(allrefs, ok) if o])
    return shared, tasks


def check_case(case, ctx):
    from torchjd import mtl_backward
    from ..proxy import RecordingAggregator
    desc = case["program"]
    dname = desc["dtype"]
    dtype = P.DT[dname]
    t = len(desc["heads"])
    b, twin, cut = P.build_mtl(desc), P.build_mtl(desc), P.build_mtl(desc, cut=True)
    dshared, dtasks = default_lists(desc, twin, cut)
    shared_refs = dshared if case["shared_mode"] == "default" else [["s", i] for i in case["shared_list"]]
    task_refs = dtasks if case["tasks_mode"] == "default" else case["tasks_lists"]
    if case["tasks_mode"] == "default" or case["shared_mode"] == "default":
        sset = {tuple(r) for r in shared_refs}
        if any(tuple(r) in sset for refs in task_refs for r in refs):
            ctx.not_judged("default_sets_overlap(C12)")
            return
    ref_blocks, task_ref = reference(desc, twin, cut, shared_refs, task_refs)
    J_ref = torch.cat(ref_blocks, dim=1) if ref_blocks else torch.zeros(t, 0, dtype=dtype)
    if not torch.isfinite(J_ref).all() or any(not torch.isfinite(g).all() for gl in task_ref.values() for g in gl):
        ctx.not_judged("nonfinite_reference")
        return
    # self-check of the two-stage reference against plain autograd when no head goes around the features
    if not any(h["around"] for h in desc["heads"]) and shared_refs:
        S = [leaf_of(twin, r) for r in shared_refs]
        for i, loss in enumerate(twin.losses):
            gs = torch.autograd.grad(loss, S, retain_graph=True, allow_unused=True)
            row = torch.cat([torch.zeros(s.numel(), dtype=dtype) if g is None else g.reshape(-1) for g, s in zip(gs, S)])
            if aj.max_abs(row - J_ref[i]) > {"float64": 1e-9, "float32": 1e-3}[dname] * (aj.max_abs(row) + 1):
                ctx.inconclusive("harness self-check: two-stage reference != plain autograd")
                return
    # pre-existing grads
    prng = np.random.default_rng(case["pseed"])
    for kind, lst in (("s", b.shared), ("p", b.pool)):
        for i in case["pregrad"][kind]:
            lst[i].grad = torch.tensor(prng.standard_normal(tuple(lst[i].shape)), dtype=torch.float64).to(dtype)
    all_leaves = b.shared + b.pool
    all_refs = [("s", i) for i in range(len(b.shared))] + [("p", i) for i in range(len(b.pool))]
    before = dict(zip(all_refs, aj.snap(all_leaves)))
    inner = aggs.make(case["agg"], dtype)
    agg = RecordingAggregator(inner) if case["proxy"] else inner
    kwargs = {}
    if case["shared_mode"] == "explicit":
        kwargs["shared_params"] = aj.container(case["shared_container"], [leaf_of(b, r) for r in shared_refs])
    if case["tasks_mode"] == "explicit":
        kwargs["tasks_params"] = aj.container(case["outer_container"],
                                              [aj.container(c, [leaf_of(b, r) for r in refs]) for c, refs in zip(case["tasks_containers"], task_refs)])
    feats = b.features[0] if case["features_as_tensor"] else list(b.features)
    gen_used = (case["shared_mode"] == "explicit" and case["shared_container"] == "gen") or \
               (case["tasks_mode"] == "explicit" and "gen" in case["tasks_containers"])
    torch.manual_seed(case["pseed"] % 100000)
    try:
        mtl_backward(b.losses, feats, agg, retain_graph=case["retain"], parallel_chunk_size=case["chunk"], **kwargs)
    except Exception as e:
        try:
            if ref_blocks:
                aggs.make(case["agg"], dtype)(J_ref.clone())
        except Exception:
            ctx.not_judged("aggregator_rejects_true_jacobian")
            return
        ctx.violation("mtl_backward_raised", _slim(case), {"error": repr(e)[:300], "generator_params": gen_used, "retain_graph": case["retain"],
                                                           "features_chained": P.feature_nodes_chained(b.features)})
        ctx.evaluated()
        return
    vio = None
    requested = {tuple(r) for r in shared_refs} | {tuple(r) for refs in task_refs for r in refs}
    # unlisted leaves untouched
    others = [r for r in all_refs if r not in requested]
    bad = aj.grads_untouched([leaf_of(b, r) for r in others], [before[r] for r in others])
    if bad:
        vio = ("unrequested_leaf_touched", {"leaves": [others[k] for k in bad]})
    # shared parameters
    if vio is None and shared_refs:
        for r in shared_refs:
            g = leaf_of(b, r).grad
            if g is None or g.shape != leaf_of(b, r).shape:
                vio = ("shared_grad_missing", {"leaf": r, "generator_params": gen_used})
                break
    if vio is None and shared_refs:
        if case["proxy"]:
            if len(agg.calls) != 1:
                vio = ("aggregator_called_n_times", {"calls": len(agg.calls)})
            else:
                J_seen, _, g_val = agg.calls[0]
                ctx.count("jseen_checked")
                assigns = aj.block_assignments(J_seen, ref_blocks, aj.TOL_J[dname]) if J_seen.shape == J_ref.shape else []
                if not assigns:
                    vio = ("jacobian_mismatch", {"J_seen": J_seen.tolist(), "J_ref_listing_order": J_ref.tolist(), "shared": shared_refs})
                else:
                    ok_any, detail = False, None
                    for asg in assigns:
                        off, ok = 0, True
                        for pos in asg:
                            leaf = leaf_of(b, shared_refs[pos])
                            w = ref_blocks[pos].shape[1]
                            exp = aj.expected_after(before[tuple(shared_refs[pos])][1], g_val[off:off + w].reshape(leaf.shape))
                            if not aj.bits_equal(leaf.grad.detach(), exp):
                                ok, detail = False, {"leaf": shared_refs[pos], "grad": tolist(leaf.grad), "expected": tolist(exp)}
                                break
                            off += w
                        if ok:
                            ok_any = True
                            break
                    ctx.count("shared_slice_bitwise_checked", len(shared_refs))
                    if not ok_any:
                        vio = ("slice_mismatch", detail)
        else:
            expv = aggs.make(case["agg"], dtype)(J_ref.clone()).detach()
            wsum = sum(abs(x) for x in case["agg"]["weights"])
            scale = float(J_ref.norm()) * max(wsum, 1.0) + 1.0
            off = 0
            for pos, r in enumerate(shared_refs):
                leaf = leaf_of(b, r)
                w = ref_blocks[pos].shape[1]
                piece = expv[off:off + w].reshape(leaf.shape)
                old = before[tuple(r)][1]
                exp = piece if old is None else old + piece
                err = aj.max_abs(leaf.grad.detach() - exp)
                ctx.maximum(f"raw_shared_{dname}", err / scale)
                if not err <= {"float64": 1e-9, "float32": 1e-4}[dname] * scale:
                    vio = ("raw_end_to_end_mismatch", {"leaf": r, "grad": tolist(leaf.grad), "expected": tolist(exp)})
                    break
                off += w
            ctx.count("raw_end_to_end_checked")
    # task parameters: sum over the tasks that list them
    if vio is None:
        for key, gl in task_ref.items():
            leaf = leaf_of(b, list(key))
            old = before[key][1]
            exp = None if old is None else old.clone()
            for g in gl:
                exp = g.clone() if exp is None else exp + g
            got = leaf.grad
            if got is None or got.shape != exp.shape:
                vio = ("task_grad_missing", {"leaf": list(key), "generator_params": gen_used})
                break
            scale = sum(aj.max_abs(g) for g in gl) + (aj.max_abs(old) if old is not None else 0) + 1.0
            err = aj.max_abs(got.detach() - exp)
            ctx.maximum(f"task_param_{dname}", err / scale)
            ctx.count("task_param_checked")
            if not err <= {"float64": 1e-10, "float32": 1e-4}[dname] * scale:
                vio = ("task_grad_mismatch", {"leaf": list(key), "grad": tolist(got), "expected": tolist(exp), "listed_by": len(gl)})
                break
    if vio is not None:
        vio[1]["generator_params"] = gen_used
        ctx.violation(vio[0], _slim(case), vio[1])
    # witnesses
    listed_count = {}
    for refs in task_refs:
        for r in refs:
            listed_count[tuple(r)] = listed_count.get(tuple(r), 0) + 1
    if any(v >= 2 for v in listed_count.values()):
        ctx.count("w_heads_share_param")
    if any("twin_of_head" in h for h in desc["heads"]):
        ctx.count("w_two_losses_with_equal_values")
    if any(len(h["features"]) < len(desc["features"]) for h in desc["heads"]):
        ctx.count("w_head_ignores_feature")
    if len(desc["features"]) >= 2:
        ctx.count("w_two_features")
    if gen_used:
        ctx.count("w_generator_params")
    if t >= 3:
        ctx.count("w_three_tasks")
    if case["tasks_mode"] == "explicit" and any(r[0] == "p" and r[1] not in h["leaves"] for refs, h in zip(task_refs, desc["heads"]) for r in refs):
        ctx.count("w_param_listed_but_unused")
    if case["tasks_mode"] == "default" and case["shared_mode"] == "default":
        ctx.count("w_default_lists")
    if case["tasks_mode"] == "explicit" and case["shared_mode"] == "explicit":
        ctx.count("w_explicit_lists")
    if any(before[k][1] is not None for k in requested):
        ctx.count("w_pre_existing_grad")
    if any(len(refs) == 0 for refs in task_refs):
        ctx.count("w_task_without_params")
    if any(h["around"] for h in desc["heads"]):
        ctx.count("w_head_goes_around_features")
    if case["agg"].get("hook"):
        ctx.count("w_aggregator_with_user_hooks")
    ctx.klass(f"agg={case['agg']['name']}{'' if case['proxy'] else '(raw)'}")
    ctx.klass(f"tasks={t}")
    ctx.klass(f"lists={case['shared_mode'][:3]}/{case['tasks_mode'][:3]}")
    ctx.evaluated(fingerprint(_slim(case)), nontrivial=t >= 2 and len(task_ref) >= 1)
    ctx.sample({"trunk_ops": [n["op"] for n in desc["trunk_nodes"]], "n_features": len(desc["features"]),
                "heads": [{"features": h["features"], "leaves": h["leaves"], "ops": [n["op"] for n in h["nodes"]]} for h in desc["heads"]],
                "shared_mode": case["shared_mode"], "tasks_mode": case["tasks_mode"], "tasks_lists": case["tasks_lists"],
                "containers": [case["shared_container"]] + case["tasks_containers"], "chunk": case["chunk"], "agg": case["agg"]})


def run_shard(shard, ctx):
    run_cases(ctx, shard_rng(ctx.seed, ID, ctx.shard_index), shard["n"], gen_case, check_case)


def replay(case, ctx):
    check_case(case, ctx)


# known-finding classifiers (mechanism predicates over the witness, never hashes)
def _generator_params(v):
    return (v["kind"] in ("shared_grad_missing", "task_grad_missing", "task_grad_mismatch", "aggregator_called_n_times")
            and bool(v["detail"].get("generator_params")))


def chained_features_freed(v):
    """F7: a feature's backward node is reachable from another feature's backward node; with retain_graph=False the task-level
    differentiation frees the trunk nodes in between and the shared Jacobian then fails with torch's 'second time' error."""
    d = v["detail"]
    return (v["kind"] == "mtl_backward_raised" and d.get("features_chained") is True and d.get("retain_graph") is False
            and "second time" in d.get("error", ""))


CLASSIFIERS = {"one_shot_iterator_params_exhausted": _generator_params, "chained_features_freed": chained_features_freed}
