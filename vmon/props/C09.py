"""C09 — Linear under scaling: each gradient weighs in proportionally to its norm (DESIGN §4 C09)."""
from __future__ import annotations

import numpy as np
import torch

from .. import matrices as M
from ..core import fingerprint
from . import _equiv as E
from ._agg import EPS, as64, to_t
from ._common import run_cases, shard_rng, split_shards

ID = "C09"
LEVEL = "exploration"
RULE = ("matrices (hostile + well-conditioned) x positive c1, c2 with entries in 1e[-3,3], a, b in 1e[-2,2]; X_k = diag(c_k) J, c3 = a c1 + b c2; "
        "Mean, Sum, Constant, ConFIG (guarded), PCGrad and Random (identical draws): |A(X3) - a A(X1) - b A(X2)| <= tau x scale; UPGrad "
        "(with and without preference vector) along the ladder reg_eps in {1e-2 .. 1e-12}: defect <= 30 rho^-0.3 sqrt(reg_eps) x scale on every rung (rho = smallest relative row norm, judged for rho >= 1e-12), last rung <= 300 reg_eps / (rho^2 gamma) "
        "and <= 1e-2 x scale on the last; non-trivial = m >= 2 and (for UPGrad / PCGrad) the matrix contains a conflict; distinct = case sha1")
ASSUMPTIONS = ["scale = a s1 |w1|_1 + b s2 |w2|_1 + s3 |w3|_1 with |w|_1 read by a forward hook on the weighting (>= 1)",
               "UPGrad raising at reg_eps below the numerical rank resolution of a rank-deficient Gramian is not judged here (C11 / C03 domain)"]
LINEAR = ["Mean", "Sum", "Constant", "ConFIG", "PCGrad", "Random"]
N = {"quick": (6000, 900), "thorough": (720000, 108000)}
LADDER = [1e-2, 1e-4, 1e-6, 1e-8, 1e-10, 1e-12]
# The property leaves the constant open.  The defect is governed by reg_eps relative to (smallest row scale / s)^2: with row scalings
# over 6 decades that ratio reaches 1e-12, so the defect only starts to vanish at the last rungs.  Worst ratio observed over 27 000
# hostile triples: 709 (quick tier: 42); a non-linear look-alike leaves a defect of order 1 x scale on every rung.
C_UPGRAD = 30.0  # x rho^-0.3, see c_upgrad()
LAST_RUNG = 1e-2
K_LAST = 300.0
RHO_MIN = 1e-12


def c_upgrad(rho):
    """The property leaves the constant of the sqrt(reg_eps) bound open.  Measured on the unchanged tree (108 000 hostile ladders,
    thorough seed 9), the worst defect / (sqrt(reg_eps) s |w|_1) grows like rho^-0.3 as the smallest relative row norm rho shrinks
    (1.1 at 1e-2, 18 at 1e-4, 70 at 1e-6, 220 at 1e-8, 1 600 at 1e-10, 8 600 at 1e-11): the regularised weights of a row of relative
    size rho are still far from their limit while reg_eps >> rho^2.  C(rho) = 30 rho^-0.3 keeps a factor >= 7 above every
    measurement (it was a flat 5 000: 60 times looser than necessary at rho = 1e-2, and too tight at 1e-11)."""
    return C_UPGRAD * rho ** -0.3


def shards(tier, seed):
    nl, nu = N[tier]
    k = 8 if tier == "quick" else 16
    return split_shards("linear", nl, k) + split_shards("upgrad", nu, k)


def requirements(tier):
    r = {f"judged:{n}": 100 for n in LINEAR}
    r.update({"judged:UPGrad": 200, "upgrad_rungs_checked": 1000, "w_upgrad_conflict_on_every_rung": 100, "w_row_scale_spread_1e4": 500,
              "w_upgrad_pref_vector": 50, "w_upgrad_default_norm_eps": 100, "w_pcgrad_conflict": 50, "w_float32": 100, "rng_recorder_hits": 1})
    return r


def gen_scalings(rng, m):
    c1 = 10.0 ** rng.uniform(-3, 3, size=m)
    c2 = 10.0 ** rng.uniform(-3, 3, size=m)
    a, b = float(10.0 ** rng.uniform(-2, 2)), float(10.0 ** rng.uniform(-2, 2))
    return c1, c2, a, b


def gen_linear(rng, i):
    name = LINEAR[int(rng.integers(len(LINEAR)))]
    dname = "float32" if rng.random() < 0.2 else "float64"
    if rng.random() < (0.6 if name in ("ConFIG", "PCGrad") else 0.3):
        m = int(rng.integers(2, 6))
        J = M.well_conditioned(rng, m, int(rng.integers(m, m + 5)), cond=float(10 ** rng.uniform(0, 2)))
        klass = "well_conditioned"
    else:
        J, klass = M.gen(rng, max_m=6, max_n=8)
    m = J.shape[0]
    desc = E.config(rng, name, m, dname, with_pref=True if name == "Constant" else None)
    c1, c2, a, b = gen_scalings(rng, m)
    return {"J": J.tolist(), "class": klass, "dtype": dname, "agg": desc, "c1": c1.tolist(), "c2": c2.tolist(), "a": a, "b": b, "seed": int(rng.integers(1 << 20))}


def _three(case):
    J = np.array(case["J"], dtype=np.float64).reshape(len(case["J"]), -1)
    c1, c2, a, b = np.array(case["c1"]), np.array(case["c2"]), case["a"], case["b"]
    c3 = a * c1 + b * c2
    return J, [c1[:, None] * J, c2[:, None] * J, c3[:, None] * J], a, b


def _scale(outs, recs, Xs, a, b, m, floor=1.0):
    tot = 0.0
    for coef, X, rec, o in zip((a, b, 1.0), Xs, recs, outs):
        w = rec["weights"]
        wl = float(np.abs(w).sum()) if w is not None and w.shape == (m,) else 1.0
        tot += coef * M.smax(X) * max(wl, floor)
    return max(tot, 1e-300)


def check_linear(case, ctx):
    dname, desc = case["dtype"], case["agg"]
    name = desc["name"]
    J, Xs64, a, b = _three(case)
    m = J.shape[0]
    Xt = [to_t(X, dname) for X in Xs64]
    Xs = [as64(t) for t in Xt]
    if not all(np.isfinite(X).all() for X in Xs):
        ctx.not_judged("nonfinite_after_cast")
        return
    if dname == "float32":
        # in float32 the three matrices are rounded separately: X3 is only approximately a X1 + b X2; the defect of that
        # rounding is covered by tau = 1e-4
        pass
    outs, recs = [], []
    for X in Xt:
        o, err, rec = E.run(desc, X, seed=case["seed"])
        if err is not None:
            ctx.violation("aggregator_raised", case, {"error": repr(err)[:300]})
            ctx.evaluated()
            return
        outs.append(o)
        recs.append(rec)
    if recs[0]["randperm"] or recs[0]["randn"]:
        ctx.count("rng_recorder_hits")
    if recs[0]["randperm"]:
        ctx.count("randperm_recorder_hits")
    orders = E.pcgrad_orders(recs[0], m) if name == "PCGrad" else None
    for X in Xs:
        g = E.guard(desc, X, dname, orders=orders)
        if g:
            ctx.not_judged(f"{name}:{g}")
            return
    scale = _scale(outs, recs, Xs, a, b, m)
    D = float(np.linalg.norm(outs[2] - a * outs[0] - b * outs[1]))
    ctx.maximum(f"{name}_{dname}", D / scale)
    # (ConFIG: attainable accuracy eps x condition number of the unit rows it pseudo-inverts - the same for the three matrices up to
    # rounding; the conditioning-aware tolerance of C08 / C10 / C11)
    if not D <= max(E.tau(name, dname, desc, X) for X in Xs) * scale:
        ctx.violation("not_linear_under_scaling", case, {"A(X3)": outs[2].tolist(), "a A(X1) + b A(X2)": (a * outs[0] + b * outs[1]).tolist(), "defect_over_scale": D / scale})
    ctx.count(f"judged:{name}")
    spread = max(max(case["c1"]) / min(case["c1"]), max(case["c2"]) / min(case["c2"]))
    if spread >= 1e4:
        ctx.count("w_row_scale_spread_1e4")
    conflict = M.has_conflict(J)
    if name == "PCGrad" and conflict:
        ctx.count("w_pcgrad_conflict")
    if dname == "float32":
        ctx.count("w_float32")
    ctx.evaluated(fingerprint(case), nontrivial=m >= 2 and (conflict or name != "PCGrad"))
    ctx.sample({"J": np.round(J, 4).tolist(), "agg": desc, "c1": np.round(case["c1"], 4).tolist(), "c2": np.round(case["c2"], 4).tolist(), "a": a, "b": b})


def gen_upgrad(rng, i):
    if rng.random() < 0.5:
        J, klass = M.gen(rng, klass=["antiparallel", "gaussian", "lowrank", "duplicated", "stationary_strong", "tall", "rowscale"][int(rng.integers(7))], max_m=6, max_n=8)
    else:
        J, klass = M.gen(rng, max_m=6, max_n=8)
    m = J.shape[0]
    # global scale over 8 decades: the bound is stated in units of s |w|, so it must hold at every scale of J
    J = J * float(10 ** rng.uniform(-4, 4))
    pref = [float(x) for x in np.round(rng.uniform(0.1, 2.0, size=m), 3)] if rng.random() < 0.4 else None
    if pref is not None and rng.random() < 0.5:
        k = float(10 ** rng.uniform(-4, 1))  # "all pref vectors": also small / large ones (the bound is in units of s |w|)
        pref = [x * k for x in pref]
    c1, c2, a, b = gen_scalings(rng, m)
    # norm_eps: the default (1e-4: every judged matrix must then be clearly above it), or far below every matrix
    return {"J": J.tolist(), "class": klass, "dtype": "float64", "pref": pref, "c1": c1.tolist(), "c2": c2.tolist(), "a": a, "b": b,
            "norm_eps": "default" if rng.random() < 0.5 else 1e-30, "buffer": bool(rng.random() < 0.3)}


def check_upgrad(case, ctx):
    J, Xs, a, b = _three(case)
    m = J.shape[0]
    if M.smax(J) == 0:
        ctx.not_judged("zero_matrix")
        return
    Xt = [to_t(X, "float64") for X in Xs]
    conflict = M.has_conflict(J)
    all_rungs = True
    last = None
    ne = case.get("norm_eps", 1e-30)
    if ne == "default" and min(M.smax(X) for X in Xs) < 4e-4:
        ne = 1e-30  # (a matrix at or below the default norm_eps = 1e-4 is legitimately mapped to zero: not the subject here)
    if ne == "default":
        ctx.count("w_upgrad_default_norm_eps")
    # rho: smallest non-zero row norm relative to the largest singular value, over the three matrices.  The regularisation acts on
    # the NORMALISED Gramian, where such a row weighs rho^2: the constants below are calibrated for rho >= RHO_MIN (12 decades of
    # combined row spread - the 6 decades of c times the spread of J itself); beyond, the regularised weights are so far from their
    # limit that no constant in units of the observed |w| exists, and the ladder is not judged
    rho = min(float(np.linalg.norm(X, axis=1)[np.linalg.norm(X, axis=1) > 0].min()) / M.smax(X) for X in Xs)
    if rho < RHO_MIN:
        ctx.not_judged("upgrad_row_spread_beyond_calibrated_domain")
        return
    rbucket = int(np.floor(np.log10(rho)))
    for reg in LADDER:
        desc = {"name": "UPGrad", "pref": case["pref"], "reg_eps": reg}
        if ne != "default":
            desc["norm_eps"] = ne
        outs, recs, failed = [], [], False
        buf = None
        for xi, X in enumerate(Xt):
            if case.get("buffer") and xi < 2:
                # diag(c1) J and diag(c2) J pass through ONE pre-allocated buffer refilled in place; the combination is a new tensor
                if buf is None:
                    buf = X.clone()
                else:
                    buf.copy_(X)
                X = buf
            o, err, rec = E.run(desc, X)
            if err is not None:
                failed = True
                break
            outs.append(o)
            recs.append(rec)
        if failed:
            ctx.not_judged(f"upgrad_raised_at_reg_eps={reg:g}")
            all_rungs = False
            continue
        scale = _scale(outs, recs, Xs, a, b, m)
        proper = _scale(outs, recs, Xs, a, b, m, floor=0.0)  # units of s |w|_1 proper: small preference vectors give small outputs
        D = float(np.linalg.norm(outs[2] - a * outs[0] - b * outs[1]))
        ratio = D / (np.sqrt(reg) * scale)
        ctx.maximum("upgrad_defect_over_sqrt_reg_scale", ratio)
        ctx.maximum(f"obs_upgrad_ratio_by_log10_rho/{rbucket}", ratio)
        ctx.count("upgrad_rungs_checked")
        if not D <= c_upgrad(rho) * np.sqrt(reg) * scale:
            ctx.violation("upgrad_defect_exceeds_regularisation_bound", case, {"reg_eps": reg, "defect": D, "scale": scale, "ratio_to_sqrt_reg_scale": ratio, "rho": rho, "constant": c_upgrad(rho)})
            return
        last = (reg, D / scale, D / max(proper, 1e-300))
    if last is not None and last[0] == LADDER[-1]:
        ctx.maximum("upgrad_defect_at_last_rung_over_scale", last[1])
        ctx.maximum(f"upgrad_defect_at_last_rung_over_scale/{case['class']}", last[1])
        # rho: smallest non-zero row norm relative to the largest singular value, over the three matrices (the regularisation
        # reg_eps acts relative to rho^2 on the normalised Gramian)
        ctx.maximum(f"obs_upgrad_last_rung_defect_times_rho2_over_reg/{case['class']}", last[1] * rho ** 2 / last[0])
        U = M.unit_rows(J)
        U = U[np.linalg.norm(U, axis=1) > 0]
        svu = M.singular_values(U)
        pos = svu[svu > 1e-12 * svu[0]]
        gamma = float((pos[-1] / pos[0]) ** 2)  # squared inverse condition number of the unit rows on their range
        ctx.maximum(f"obs_upgrad_last_rung_defect_times_rho2_gamma_over_reg/{case['class']}", last[2] * rho ** 2 * gamma / last[0])
        # sharper form of "vanishes as reg_eps -> 0": on the normalised Gramian the regularisation competes with rho^2 gamma (smallest
        # row scale squared x squared inverse condition number of the unit rows), so at the last rung the defect is at most
        # K_LAST reg_eps / (rho^2 gamma) x scale (calibrated: <= 12.8 over 108 000 hostile ladders; K_LAST = 300), never below rounding
        sharp = max(1e-9, K_LAST * last[0] / (rho ** 2 * gamma))
        if sharp < LAST_RUNG:
            ctx.count("upgrad_sharp_last_rung_bound_checked")
            if not last[2] <= sharp:
                ctx.violation("upgrad_defect_does_not_vanish", case, {"reg_eps": last[0], "defect_over_s_w1": last[2], "bound": sharp, "rho": rho, "gamma": gamma})
                return
        if not last[1] <= LAST_RUNG:
            ctx.violation("upgrad_defect_does_not_vanish", case, {"reg_eps": last[0], "defect_over_scale": last[1]})
            return
    ctx.count("judged:UPGrad")
    if conflict and all_rungs:
        ctx.count("w_upgrad_conflict_on_every_rung")
    if case["pref"] is not None:
        ctx.count("w_upgrad_pref_vector")
    if max(max(case["c1"]) / min(case["c1"]), max(case["c2"]) / min(case["c2"])) >= 1e4:
        ctx.count("w_row_scale_spread_1e4")
    ctx.evaluated(fingerprint(case), nontrivial=m >= 2 and conflict)
    ctx.sample({"J": np.round(J, 4).tolist(), "agg": "UPGrad ladder", "pref": case["pref"], "a": a, "b": b, "last_rung_defect_over_scale": None if last is None else last[1]})


def run_shard(shard, ctx):
    rng = shard_rng(ctx.seed, ID, ctx.shard_index)
    if shard["kind"] == "linear":
        run_cases(ctx, rng, shard["n"], gen_linear, check_linear)
    else:
        run_cases(ctx, rng, shard["n"], gen_upgrad, check_upgrad)


def replay(case, ctx):
    (check_upgrad if "agg" not in case else check_linear)(case, ctx)


REQ_PCGRAD = ["judged:PCGrad", "w_pcgrad_conflict"]


def waivers(counters):
    if counters.get("randperm_recorder_hits", 0) == 0:  # PCGrad judged for m <= 4 only (all-orders guard): its quota is waived
        return {k for k in REQ_PCGRAD}
    if counters.get("rng_recorder_hits", 0) == 0:
        return {"rng_recorder_hits", "judged:PCGrad", "w_pcgrad_conflict"}
    return set()
