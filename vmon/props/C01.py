"""C01 — backward() deposits the aggregation of the true Jacobian into .grad (DESIGN §4 C01)."""
from __future__ import annotations

import numpy as np
import torch

from .. import aggs, autojac as aj, programs as P
from ..core import fingerprint
from ._common import run_cases, shard_rng, split_shards, tolist

ID = "C01"
LEVEL = "exploration"
RULE = ("random autograd programs (1-5 leaves of 11 shapes incl. 0-d, 1-8 nodes from a 30-op palette with reuse, "
        "multi-output ops, detach, non-grad leaves; 1-3 output tensors) x requested input subsets/orders/containers x "
        "chunk sizes x aggregators (row-order sensitive ones through a recording proxy, linear/UPGrad/TrimmedMean raw) "
        "x dtype; a case is non-trivial when >= 2 inputs are requested and the Jacobian has >= 2 rows; distinct = "
        "distinct case descriptions (sha1)")
ASSUMPTIONS = ["torch.autograd row-by-row VJPs on a twin graph are the true Jacobian (cross-checked against central "
               "finite differences on smooth programs in the thorough tier)",
               "graphs without retain_grad() tensors (documented limitation)"]
N = {"quick": 1600, "thorough": 600000}
STABLE = {"Constant", "Mean", "Sum", "TrimmedMean", "UPGrad", "DualProj"}
LINEAR = {"Constant", "Mean", "Sum"}
PROXY_INNER = ["Constant", "Constant", "Mean", "Sum", "UPGrad", "DualProj", "MGDA", "Krum", "TrimmedMean", "AlignedMTL",
               "IMTLG", "ConFIG"]


def shards(tier, seed):
    out = split_shards("random", N[tier], 16 if tier == "quick" else 32)
    if tier == "thorough":
        out += split_shards("fd", 1500, 4)
    return out


def requirements(tier):
    return {"jseen_checked": 200, "slice_bitwise_checked": 400, "raw_end_to_end_checked": 50, "order_variant_checked": 100,
            "w_reuse": 50, "w_zero_block": 20, "w_equal_sized_inputs": 20, "w_multi_tensor": 50, "w_0d_leaf": 10,
            "w_pre_existing_grad": 50, "w_col_order_differs_from_listing": 5, "w_col_order_equals_listing": 5,
            "w_float32": 20, "w_chunked": 50, "w_aggregator_with_user_hooks": 20, "w_tensors_given_as_single_tensor": 20}


def gen_agg_desc(rng, m, proxy):
    if not proxy:
        r = rng.random()
        if r < 0.5:
            return {"name": "Constant", "weights": aggs.random_weights(rng, m)}
        if r < 0.6:
            return {"name": "Mean"}
        if r < 0.7:
            return {"name": "Sum"}
        if r < 0.85 and m >= 3:
            return {"name": "TrimmedMean", "b": 1}
        return {"name": "UPGrad", "pref": [float(np.round(x, 3)) for x in rng.uniform(0.1, 2.0, size=m)]}
    name = PROXY_INNER[rng.integers(len(PROXY_INNER))]
    if name in ("Krum", "TrimmedMean") and m < 3:
        name = "Constant"
    if name == "Constant":
        return {"name": name, "weights": aggs.random_weights(rng, m)}
    if name in ("UPGrad", "DualProj", "AlignedMTL", "ConFIG") and rng.random() < 0.7:
        return {"name": name, "pref": [float(np.round(x, 3)) for x in rng.uniform(0.1, 2.0, size=m)]}
    if name == "Krum":
        return {"name": name, "f": 0, "k": int(rng.integers(1, 3))}
    if name == "TrimmedMean":
        return {"name": name, "b": 1}
    return {"name": name}


def gen_case(rng, i, smooth=False):
    dtype = "float32" if rng.random() < 0.2 and not smooth else "float64"
    desc = P.gen_program(rng, dtype, smooth=smooth)
    rg = [j for j, l in enumerate(desc["leaves"]) if l["rg"]]
    m = sum(int(np.prod(s)) for s in _out_shapes(desc))
    r = rng.random()
    if r < 0.15:
        req = None
    elif r < 0.19:
        req = []  # nothing requested: a legal call that must change nothing
    elif r < 0.5:
        req = list(rg)
    else:
        k = int(rng.integers(1, len(rg) + 1))
        req = [int(x) for x in rng.choice(rg, size=k, replace=False)]
    if req is not None:
        rng.shuffle(req)
    order2 = None
    if req is not None and len(req) >= 1:
        order2 = list(req)
        rng.shuffle(order2)
    proxy = bool(rng.random() < 0.75)
    chunk = [None, 1, 2, 3, m, m + 2][int(rng.integers(6))]
    pre = [j for j in rg if rng.random() < 0.3]
    agg_desc = gen_agg_desc(rng, m, proxy)
    if not proxy and agg_desc["name"] in LINEAR and rng.random() < 0.4:
        # user hooks registered on the aggregator object are part of `aggregator(J)`
        agg_desc["hook"] = {"post": float(np.round(rng.uniform(0.2, 3.0), 2)), "pre": [None, float(np.round(rng.uniform(0.5, 2.0), 2))][int(rng.integers(2))]}
    return {"program": desc, "req": req, "container": ["list", "tuple", "set", "gen", "dictkeys"][int(rng.integers(5))],
            "order2": order2, "container2": ["list", "tuple", "set", "gen"][int(rng.integers(4))],
            "chunk": chunk, "agg": agg_desc, "proxy": proxy, "pregrad": pre,
            "pseed": int(rng.integers(1 << 30)), "retain": bool(rng.random() < 0.3), "m": m,
            "tensors_as": ["list", "tuple", "single_if_one"][int(rng.integers(3))]}


def _out_shapes(desc):
    b = P.build(desc)
    return [tuple(o.shape) for o in b.outputs]


def _slim(case):
    c = dict(case)
    p = dict(c["program"])
    # (the generator's symbolic `deps` stay in the recorded case: replays need them)
    c["program"] = p
    return c


def _set_pregrads(b, case):
    prng = np.random.default_rng(case["pseed"])
    for j in case["pregrad"]:
        leaf = b.leaves[j]
        g = torch.tensor(prng.standard_normal(tuple(leaf.shape)), dtype=torch.float64).to(leaf.dtype)
        if g.ndim >= 2 and prng.random() < 0.4:
            g = g.transpose(0, -1).contiguous().transpose(0, -1)  # a pre-existing .grad of arbitrary memory layout
        leaf.grad = g


def _one_run(case, order, cont, ctx, use_proxy, label):
    """Runs backward once on a fresh build and checks steps 1, 2 (proxy) or 4 (raw).  Returns per-leaf grads or None."""
    from torchjd import backward
    from ..proxy import RecordingAggregator
    desc = case["program"]
    dname = desc["dtype"]
    dtype = P.DT[dname]
    b, twin = P.build(desc), P.build(desc)
    rg = [j for j, l in enumerate(desc["leaves"]) if l["rg"]]
    twin_rg = [twin.leaves[j] for j in rg]
    reach = dict(zip(rg, P.reachable(twin.outputs, twin_rg)))
    sym = set().union(*[set(desc["deps"][o]) for o in desc["outputs"]]) if "deps" in desc else {j for j in rg if reach[j]}
    if {j for j in rg if reach[j]} != sym:
        ctx.inconclusive(f"harness self-check: symbolic deps {sorted(sym)} != behavioural {reach}")
        return None
    requested = sorted(j for j in rg if reach[j]) if order is None else list(order)
    ref_blocks = P.reference_jacobian(twin.outputs, [twin.leaves[j] for j in requested])
    J_ref = torch.cat(ref_blocks, dim=1) if ref_blocks else torch.zeros(case["m"], 0, dtype=dtype)
    if not torch.isfinite(J_ref).all():
        ctx.not_judged("nonfinite_reference")
        return None
    _set_pregrads(b, case)
    inner = aggs.make(case["agg"], dtype)
    agg = RecordingAggregator(inner) if use_proxy else inner
    before = aj.snap(b.leaves)
    values_before = [t.detach().clone() for t in b.all_tensors()]
    inputs = None if order is None else aj.container(cont, [b.leaves[j] for j in order])
    tensors = b.outputs
    if case.get("tensors_as") == "tuple":
        tensors = tuple(b.outputs)
    elif case.get("tensors_as") == "single_if_one" and len(b.outputs) == 1:
        tensors = b.outputs[0]  # `tensors: Sequence[Tensor] | Tensor`
        ctx.count("w_tensors_given_as_single_tensor")
    try:
        backward(tensors, agg, inputs=inputs, retain_graph=case["retain"], parallel_chunk_size=case["chunk"])
    except Exception as e:
        # is the aggregator itself unable to handle the true Jacobian?  then C11's business, not judged here
        try:
            aggs.make(case["agg"], dtype)(J_ref.clone())
        except Exception:
            ctx.not_judged("aggregator_rejects_true_jacobian")
            return None
        ctx.violation("backward_raised", _slim(case), {"run": label, "error": repr(e)[:300]})
        return None
    tolJ = aj.TOL_J[dname]
    out = {}
    # leaves not requested are untouched
    others = [j for j in range(len(b.leaves)) if j not in requested]
    bad = aj.grads_untouched([b.leaves[j] for j in others], [before[j] for j in others])
    if bad:
        ctx.violation("unrequested_leaf_touched", _slim(case), {"run": label, "leaves": [others[k] for k in bad]})
        return None
    if not requested:
        # nothing requested (inputs=[] or no reachable leaf): a legal call; no .grad may have been touched (checked above for
        # every leaf), no value changed, and the aggregator has nothing to aggregate
        for t, v in zip(b.all_tensors(), values_before):
            if not aj.bits_equal(t.detach(), v):
                ctx.violation("tensor_value_changed", _slim(case), {"run": label})
                return None
        ctx.count("w_nothing_requested")
        return {}, requested, ref_blocks, J_ref
    for j in requested:
        g = b.leaves[j].grad
        if g is None or g.shape != b.leaves[j].shape or g.dtype != dtype:
            ctx.violation("grad_missing_or_misshaped", _slim(case), {"run": label, "leaf": j, "grad": None if g is None else list(g.shape)})
            return None
    if use_proxy:
        if len(agg.calls) != 1:
            ctx.violation("aggregator_called_n_times", _slim(case), {"run": label, "calls": len(agg.calls)})
            return None
        J_seen, g_obj, g_val = agg.calls[0]
        if J_seen.ndim != 2 or J_seen.shape != J_ref.shape:
            ctx.violation("jacobian_shape", _slim(case), {"run": label, "seen": list(J_seen.shape), "ref": list(J_ref.shape)})
            return None
        assigns = aj.block_assignments(J_seen, ref_blocks, tolJ)
        ctx.count("jseen_checked")
        if not assigns:
            ctx.violation("jacobian_mismatch", _slim(case), {"run": label, "J_seen": J_seen.tolist(), "J_ref_listing_order": J_ref.tolist(),
                                                             "requested": requested})
            return None
        ctx.maximum(f"J_seen_vs_ref_{dname}", _best_resid(J_seen, ref_blocks, assigns[0]))
        ok_any, detail = False, None
        for asg in assigns:
            off, ok = 0, True
            for pos in asg:
                j = requested[pos]
                w = ref_blocks[pos].shape[1]
                piece = g_val[off:off + w].reshape(b.leaves[j].shape)
                exp = aj.expected_after(before[j][1], piece)
                if not aj.bits_equal(b.leaves[j].grad.detach(), exp):
                    ok = False
                    detail = {"leaf": j, "grad": tolist(b.leaves[j].grad), "expected": tolist(exp), "assignment": [requested[p] for p in asg]}
                    break
                off += w
            if ok:
                ok_any = True
                if order is not None and len(asg) >= 2:
                    ctx.count("w_col_order_equals_listing" if asg == list(range(len(asg))) else "w_col_order_differs_from_listing")
                break
        ctx.count("slice_bitwise_checked", len(requested))
        if not ok_any:
            ctx.violation("slice_mismatch", _slim(case), {"run": label, **(detail or {}), "aggregated": tolist(g_val)})
            return None
    else:
        # raw end-to-end: A(J_ref) sliced, in listing order (the aggregators used here are column-equivariant)
        expv = aggs.make(case["agg"], dtype)(J_ref.clone()).detach()
        name = case["agg"]["name"]
        wsum = sum(abs(x) for x in case["agg"].get("weights", [1.0])) if name == "Constant" else 1.0
        scale = float(J_ref.norm()) * max(wsum, 1.0) + 1.0
        tol = ({"float64": 1e-9, "float32": 1e-4}[dname] if name in LINEAR or name == "TrimmedMean"
               else {"float64": 1e-7, "float32": 2e-3}[dname])
        off = 0
        for pos, j in enumerate(requested):
            w = ref_blocks[pos].shape[1]
            piece = expv[off:off + w].reshape(b.leaves[j].shape)
            exp = piece if before[j][1] is None else before[j][1] + piece
            err = aj.max_abs(b.leaves[j].grad.detach() - exp)
            ctx.maximum(f"raw_{'linear' if name in LINEAR else name}_{dname}", err / scale)
            if not err <= tol * scale:
                ctx.violation("raw_end_to_end_mismatch", _slim(case), {"run": label, "leaf": j, "grad": tolist(b.leaves[j].grad), "expected": tolist(exp), "err": err})
                return None
            off += w
        ctx.count("raw_end_to_end_checked")
    # values of all tensors unchanged (cheap part of C06, always on)
    for t, v in zip(b.all_tensors(), values_before):
        if not aj.bits_equal(t.detach(), v):
            ctx.violation("tensor_value_changed", _slim(case), {"run": label})
            return None
    for j in requested:
        out[j] = (b.leaves[j].grad.detach().clone(), before[j][1])
    return out, requested, ref_blocks, J_ref


def _best_resid(J_seen, ref_blocks, asg):
    cat = torch.cat([ref_blocks[p] for p in asg], dim=1) if asg else J_seen
    return aj.max_abs(J_seen - cat) / (aj.max_abs(cat) + 1.0)


def check_case(case, ctx):
    desc = case["program"]
    feats = P.program_features(desc)
    r1 = _one_run(case, case["req"], case["container"], ctx, case["proxy"], "first")
    if r1 is None:
        ctx.evaluated()
        return
    grads1, requested, ref_blocks, J_ref = r1
    # witnesses
    if feats["reuse"]:
        ctx.count("w_reuse")
    if any(bool((blk == 0).all(dim=1).any()) and blk.shape[1] > 0 for blk in ref_blocks):
        ctx.count("w_zero_block")
    sizes = [blk.shape[1] for blk in ref_blocks]
    if len(sizes) != len(set(sizes)):
        ctx.count("w_equal_sized_inputs")
    if feats["n_outputs"] >= 2:
        ctx.count("w_multi_tensor")
    if any(desc["leaves"][j]["shape"] == [] for j in requested):
        ctx.count("w_0d_leaf")
    if any(j in case["pregrad"] for j in requested):
        ctx.count("w_pre_existing_grad")
    if desc["dtype"] == "float32":
        ctx.count("w_float32")
    if case["chunk"] is not None and case["chunk"] < case["m"]:
        ctx.count("w_chunked")
    if case["agg"].get("hook"):
        ctx.count("w_aggregator_with_user_hooks")
    ctx.klass(f"agg={case['agg']['name']}{'' if case['proxy'] else '(raw)'}")
    ctx.klass(f"chunk={'None' if case['chunk'] is None else ('1' if case['chunk'] == 1 else ('<m' if case['chunk'] < case['m'] else '>=m'))}")
    ctx.klass(f"container={case['container'] if case['req'] is not None else 'default(None)'}")
    # order independence: same program, inputs listed in another order / container
    if case["order2"] is not None and case["agg"]["name"] in STABLE:
        r2 = _one_run(case, case["order2"], case["container2"], ctx, case["proxy"], "reordered")
        if r2 is not None:
            grads2 = r2[0]
            name, dname = case["agg"]["name"], desc["dtype"]
            tol = ({"float64": 1e-12, "float32": 1e-5} if name in LINEAR or name == "TrimmedMean" else {"float64": 1e-7, "float32": 2e-3})[dname]
            wsum = sum(abs(x) for x in case["agg"].get("weights", [1.0])) if name == "Constant" else 1.0
            scale = float(J_ref.norm()) * max(wsum, 1.0) + 1.0
            for j in requested:
                d1 = grads1[j][0] - (0 if grads1[j][1] is None else grads1[j][1])
                d2 = grads2[j][0] - (0 if grads2[j][1] is None else grads2[j][1])
                err = aj.max_abs(d1 - d2)
                ctx.maximum(f"order_variant_{'linear' if name in LINEAR else name}_{dname}", err / scale)
                if not err <= tol * scale:
                    ctx.violation("listing_order_changes_result", _slim(case), {"leaf": j, "first": tolist(d1), "reordered": tolist(d2)})
                    break
            ctx.count("order_variant_checked")
    ctx.evaluated(fingerprint(_slim(case)), nontrivial=len(requested) >= 2 and case["m"] >= 2)
    ctx.sample({"program_nodes": [n["op"] for n in desc["nodes"]], "leaf_shapes": [l["shape"] for l in desc["leaves"]],
                "requested": case["req"], "container": case["container"], "chunk": case["chunk"], "agg": case["agg"],
                "proxy": case["proxy"], "rows": case["m"], "dtype": desc["dtype"]})


def check_fd(case, ctx):
    """Thorough tier: the autograd reference itself against central finite differences on smooth float64 programs."""
    desc = case["program"]
    twin = P.build(desc)
    rg = [j for j, l in enumerate(desc["leaves"]) if l["rg"]]
    ref = P.reference_jacobian(twin.outputs, [twin.leaves[j] for j in rg])
    h = 1e-6
    for pos, j in enumerate(rg):
        n = twin.leaves[j].numel()
        for e in range(n):
            vals = []
            for sgn in (+1, -1):
                b = P.build(desc)
                with torch.no_grad():
                    # (logical C-order index: reshape(-1) of a non-contiguous leaf would be a copy)
                    idx = tuple(int(x) for x in np.unravel_index(e, tuple(b.leaves[j].shape))) if b.leaves[j].ndim else ()
                    b.leaves[j][idx] += sgn * h
                b2 = P.run_nodes(desc["nodes"], list(b.leaves), P.DT[desc["dtype"]])
                vals.append(torch.cat([b2[o].detach().reshape(-1) for o in desc["outputs"]]))
            fd = (vals[0] - vals[1]) / (2 * h)
            err = aj.max_abs(fd - ref[pos][:, e])
            sc = aj.max_abs(ref[pos]) + 1.0
            ctx.maximum("fd_vs_autograd", err / sc)
            if err > 1e-5 * sc:
                ctx.inconclusive(f"reference self-check: finite differences disagree with autograd ({err})")
                return
    ctx.count("fd_crosschecked")
    ctx.evaluated()


def run_shard(shard, ctx):
    rng = shard_rng(ctx.seed, ID, ctx.shard_index)
    if shard["kind"] == "random":
        run_cases(ctx, rng, shard["n"], gen_case, check_case)
    else:
        run_cases(ctx, rng, shard["n"], lambda r, i: gen_case(r, i, smooth=True), check_fd)


def replay(case, ctx):
    check_case(case, ctx)
    print("replayed C01 case; violations:", len(ctx.violations))
