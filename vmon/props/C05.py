"""C05 — With linear aggregators, Jacobian descent coincides with PyTorch autograd (DESIGN §4 C05)."""
from __future__ import annotations

import numpy as np
import torch

from .. import aggs, autojac as aj, programs as P
from ..core import fingerprint
from . import C01, C02
from ._common import run_cases, shard_rng, split_shards, tolist

ID = "C05"
LEVEL = "exploration"
RULE = ("the C01 / C02 program generators; graph 1 driven by torchjd with Constant(w) / Sum / Mean (w with negative, zero and "
        "large entries), graph 2 (twin, bit-identical forward) by torch.autograd.backward with grad_tensors = w split per tensor; "
        "every leaf's .grad compared (None pattern + values); non-trivial = mixed-sign weights and >= 2 rows; distinct = case sha1")
ASSUMPTIONS = ["torch.autograd.backward on a twin graph is the oracle the property names"]
N = {"quick": (1500, 900), "thorough": (600000, 360000)}
TOL = {"float64": 1e-10, "float32": 1e-4}


def shards(tier, seed):
    nb, nm = N[tier]
    k = 10 if tier == "quick" else 20
    return split_shards("backward", nb, k) + split_shards("mtl", nm, 6 if tier == "quick" else 12)


def requirements(tier):
    return {"backward_leaf_compared": 500, "mtl_shared_compared": 200, "mtl_task_compared": 200, "w_mixed_sign_weights": 100,
            "w_zero_weight": 20, "w_multi_tensor": 50, "w_subset_of_inputs": 50, "w_chunked": 50, "w_none_pattern_checked": 50,
            "w_sum": 20, "w_mean": 20, "w_large_weight": 10}


def gen_weights(rng, m):
    w = rng.uniform(0.1, 2.0, size=m) * rng.choice([-1.0, 1.0], size=m)
    if rng.random() < 0.3:
        w[int(rng.integers(m))] = 0.0
    if rng.random() < 0.15:
        w[int(rng.integers(m))] *= 1e3
    return [float(np.round(x, 4)) for x in w]


def gen_lin(rng, m):
    r = rng.random()
    if r < 0.7:
        return {"name": "Constant", "weights": gen_weights(rng, m)}
    return {"name": "Sum"} if r < 0.85 else {"name": "Mean"}


def weights_of(agg, m):
    if agg["name"] == "Constant":
        return list(agg["weights"])
    return [1.0] * m if agg["name"] == "Sum" else [1.0 / m] * m


def gen_backward(rng, i):
    case = C01.gen_case(rng, i)
    case["agg"] = gen_lin(rng, case["m"])
    case["proxy"] = False
    return case


def check_backward(case, ctx):
    from torchjd import backward
    desc = case["program"]
    dname = desc["dtype"]
    dtype = P.DT[dname]
    b, twin = P.build(desc), P.build(desc)
    m = case["m"]
    w = weights_of(case["agg"], m)
    C01._set_pregrads(b, case)
    C01._set_pregrads(twin, case)
    req = case["req"]
    inputs = None if req is None else aj.container(case["container"], [b.leaves[j] for j in req])
    try:
        # Sum() / Mean() are long-lived instances shared by all the cases of the process (as in a training loop whose batches have
        # varying numbers of rows); Constant(w) is bound to its row count and built per case
        agg = aggs.shared(case["agg"], dtype) if case["agg"]["name"] in ("Sum", "Mean") else aggs.make(case["agg"], dtype)
        backward(b.outputs, agg, inputs=inputs, retain_graph=case["retain"], parallel_chunk_size=case["chunk"])
    except Exception as e:
        ctx.violation("backward_raised", C01._slim(case), {"error": repr(e)[:300]})
        ctx.evaluated()
        return
    # twin: torch.autograd.backward(tensors, grad_tensors = w split per tensor)
    gts, off = [], 0
    for o in twin.outputs:
        n = o.numel()
        gts.append(torch.tensor(w[off:off + n], dtype=dtype).reshape(o.shape))
        off += n
    tw_inputs = None if req is None else [twin.leaves[j] for j in req]
    if tw_inputs is None or tw_inputs:  # (torch.autograd.backward refuses an empty `inputs`: the twin then simply stays untouched)
        torch.autograd.backward(twin.outputs, grad_tensors=gts, inputs=tw_inputs)
    requested = None if req is None else set(req)
    # scale: sum_i |w_i| |J_i|  (from the twin's reference Jacobian is expensive; bound it by |grad| magnitudes)
    vio = None
    for j, (l1, l2) in enumerate(zip(b.leaves, twin.leaves)):
        if not desc["leaves"][j]["rg"]:
            if l1.grad is not None:
                vio = ("grad_on_non_grad_leaf", {"leaf": j})
            continue
        g1, g2 = l1.grad, l2.grad
        is_req = requested is None or j in requested
        if not is_req:
            # not requested: both must be untouched (None or the pre-existing value)
            ctx.count("w_none_pattern_checked")
            if (g1 is None) != (g2 is None) or (g1 is not None and not aj.bits_equal(g1, g2)):
                vio = ("unrequested_leaf_differs", {"leaf": j})
            continue
        # requested-but-unreachable: torchjd gives zeros where autograd leaves None -> None counts as zeros (explicit lists);
        # with inputs=None torchjd only requests reachable leaves and None must match None
        if req is None and g2 is None:
            ctx.count("w_none_pattern_checked")
            if g1 is not None:
                vio = ("default_inputs_wrote_unreachable_leaf", {"leaf": j})
            continue
        z = torch.zeros_like(l1)
        a1 = z if g1 is None else g1.detach()
        a2 = z if g2 is None else g2.detach()
        if g1 is None and req is not None:
            vio = ("requested_grad_missing", {"leaf": j})
            continue
        scale = aj.max_abs(a2) + sum(abs(x) for x in w) + 1.0
        err = aj.max_abs(a1 - a2)
        ctx.maximum(f"backward_vs_autograd_{dname}", err / scale)
        ctx.count("backward_leaf_compared")
        if not err <= TOL[dname] * scale:
            vio = ("differs_from_autograd", {"leaf": j, "torchjd": tolist(a1), "autograd": tolist(a2), "weights": w})
    if vio:
        ctx.violation(vio[0], C01._slim(case), vio[1])
    if any(x < 0 for x in w) and any(x > 0 for x in w):
        ctx.count("w_mixed_sign_weights")
    if any(x == 0 for x in w):
        ctx.count("w_zero_weight")
    if any(abs(x) > 100 for x in w):
        ctx.count("w_large_weight")
    if len(desc["outputs"]) >= 2:
        ctx.count("w_multi_tensor")
    rg = [j for j, l in enumerate(desc["leaves"]) if l["rg"]]
    if req is not None and len(set(req)) < len(rg):
        ctx.count("w_subset_of_inputs")
    if case["chunk"] is not None and case["chunk"] < m:
        ctx.count("w_chunked")
    if case["agg"]["name"] == "Sum":
        ctx.count("w_sum")
    if case["agg"]["name"] == "Mean":
        ctx.count("w_mean")
    ctx.klass(f"backward/{case['agg']['name']}")
    ctx.evaluated(fingerprint(C01._slim(case)), nontrivial=m >= 2 and any(x < 0 for x in w) and any(x > 0 for x in w))
    ctx.sample({"entry": "backward", "ops": [n["op"] for n in desc["nodes"]], "weights": w, "requested": req, "chunk": case["chunk"],
                "agg": case["agg"]["name"], "dtype": dname})


def gen_mtl(rng, i):
    case = C02.gen_case(rng, i)
    if case is None:
        return None
    if any(h["around"] for h in case["program"]["heads"]):
        return None
    case["agg"] = gen_lin(rng, len(case["program"]["heads"]))
    case["proxy"] = False
    return case


def check_mtl(case, ctx):
    from torchjd import mtl_backward
    desc = case["program"]
    dname = desc["dtype"]
    dtype = P.DT[dname]
    t = len(desc["heads"])
    w = weights_of(case["agg"], t)
    b, twin, tw2, cut = P.build_mtl(desc), P.build_mtl(desc), P.build_mtl(desc), P.build_mtl(desc, cut=True)
    dshared, dtasks = C02.default_lists(desc, twin, cut)
    shared_refs = dshared if case["shared_mode"] == "default" else [["s", i] for i in case["shared_list"]]
    task_refs = dtasks if case["tasks_mode"] == "default" else case["tasks_lists"]
    sset = {tuple(r) for r in shared_refs}
    if any(tuple(r) in sset for refs in task_refs for r in refs):
        ctx.not_judged("default_sets_overlap(C12)")
        return
    kwargs = {}
    if case["shared_mode"] == "explicit":
        kwargs["shared_params"] = aj.container(case["shared_container"], [C02.leaf_of(b, r) for r in shared_refs])
    if case["tasks_mode"] == "explicit":
        kwargs["tasks_params"] = [aj.container(c, [C02.leaf_of(b, r) for r in refs]) for c, refs in zip(case["tasks_containers"], task_refs)]
    try:
        agg = aggs.shared(case["agg"], dtype) if case["agg"]["name"] in ("Sum", "Mean") else aggs.make(case["agg"], dtype)
        mtl_backward(b.losses, list(b.features), agg, retain_graph=case["retain"],
                     parallel_chunk_size=case["chunk"], **kwargs)
    except Exception as e:
        ctx.violation("mtl_backward_raised", C02._slim(case), {"error": repr(e)[:300], "retain_graph": case["retain"],
                                                               "features_chained": P.feature_nodes_chained(b.features)})
        ctx.evaluated()
        return
    vio = None
    # shared parameters: autograd.backward(losses, grad_tensors=w, inputs=shared) on the twin
    if shared_refs:
        S = [C02.leaf_of(twin, r) for r in shared_refs]
        torch.autograd.backward(twin.losses, grad_tensors=[torch.tensor(x, dtype=dtype) for x in w], inputs=S, retain_graph=True)
        for r, s2 in zip(shared_refs, S):
            g1 = C02.leaf_of(b, r).grad
            a2 = torch.zeros_like(s2) if s2.grad is None else s2.grad
            if g1 is None:
                vio = ("shared_grad_missing", {"leaf": r})
                break
            scale = aj.max_abs(a2) + sum(abs(x) for x in w) + 1.0
            err = aj.max_abs(g1 - a2)
            ctx.maximum(f"mtl_shared_vs_autograd_{dname}", err / scale)
            ctx.count("mtl_shared_compared")
            if not err <= TOL[dname] * scale:
                vio = ("shared_differs_from_autograd", {"leaf": r, "torchjd": tolist(g1), "autograd": tolist(a2), "weights": w})
                break
    # task parameters: what loss_i.backward(inputs=task_params_i) gives, summed over the listing tasks.  The per-task
    # gradients are taken with torch.autograd.grad and summed OUT OF PLACE: torch's own .grad accumulation can deposit
    # tensors that share storage (e.g. two 0-d parameters fed by one expanded cotangent), which a later in-place
    # accumulation corrupts - an artefact of the reference, not of torchjd (observed: 2.44 instead of 1.0).
    if vio is None:
        ref = {}
        for i, refs in enumerate(task_refs):
            if refs:
                gs = torch.autograd.grad(tw2.losses[i], [C02.leaf_of(tw2, r) for r in refs], retain_graph=True, allow_unused=True)
                for r, g in zip(refs, gs):
                    leaf = C02.leaf_of(tw2, r)
                    g = torch.zeros_like(leaf) if g is None else g.detach().clone()
                    ref[tuple(r)] = g if tuple(r) not in ref else ref[tuple(r)] + g
        for key, a2 in ref.items():
            g1 = C02.leaf_of(b, list(key)).grad
            if g1 is None:
                vio = ("task_grad_missing", {"leaf": list(key)})
                break
            scale = aj.max_abs(a2) + 1.0
            err = aj.max_abs(g1 - a2)
            ctx.maximum(f"mtl_task_vs_autograd_{dname}", err / scale)
            ctx.count("mtl_task_compared")
            if not err <= TOL[dname] * scale:
                vio = ("task_differs_from_autograd", {"leaf": list(key), "torchjd": tolist(g1), "autograd": tolist(a2)})
                break
    if vio:
        ctx.violation(vio[0], C02._slim(case), vio[1])
    if any(x < 0 for x in w) and any(x > 0 for x in w):
        ctx.count("w_mixed_sign_weights")
    if any(x == 0 for x in w):
        ctx.count("w_zero_weight")
    if case["chunk"] is not None and case["chunk"] < t:
        ctx.count("w_chunked")
    ctx.klass(f"mtl/{case['agg']['name']}")
    ctx.evaluated(fingerprint(C02._slim(case)), nontrivial=t >= 2 and any(x < 0 for x in w) and any(x > 0 for x in w))
    ctx.sample({"entry": "mtl_backward", "tasks": t, "weights": w, "lists": [case["shared_mode"], case["tasks_mode"]], "chunk": case["chunk"]})


def run_shard(shard, ctx):
    rng = shard_rng(ctx.seed, ID, ctx.shard_index)
    if shard["kind"] == "backward":
        run_cases(ctx, rng, shard["n"], gen_backward, check_backward)
    else:
        run_cases(ctx, rng, shard["n"], gen_mtl, check_mtl)


CLASSIFIERS = {"chained_features_freed": C02.chained_features_freed}


def replay(case, ctx):
    (check_mtl if "shared_mode" in case else check_backward)(case, ctx)
