"""Helpers shared by the aggregator property modules (C03 C04 C08-C11 C16-C19)."""
from __future__ import annotations

import numpy as np
import torch

from .. import aggs

EPS = {"float64": 2.2e-16, "float32": 1.2e-7}
DT = {"float64": torch.float64, "float32": torch.float32}


def to_t(J: np.ndarray, dname: str, column_major: bool = False) -> torch.Tensor:
    t = torch.tensor(J, dtype=torch.float64).to(DT[dname])
    if column_major and t.ndim == 2:
        t = t.t().contiguous().t()  # same values, non-contiguous (column-major) memory layout
    return t


def as64(t: torch.Tensor) -> np.ndarray:
    return t.detach().to(torch.float64).numpy().copy()


def call(agg, J: torch.Tensor):
    """Returns (output float64 ndarray or None, error or None, weights seen by a forward hook on agg.weighting or None)."""
    seen = {}
    handle = None
    wmod = getattr(agg, "weighting", None)
    if isinstance(wmod, torch.nn.Module):
        handle = wmod.register_forward_hook(lambda mod, inp, out: seen.__setitem__("w", out.detach().clone() if isinstance(out, torch.Tensor) else None))
    try:
        out = agg(J)
        err = None
    except Exception as e:
        out, err = None, e
    if handle is not None:
        handle.remove()
    w = seen.get("w")
    return out, err, (None if w is None else as64(w))


def shape_ok(out, J: torch.Tensor, finite: bool = True):
    """None if `out` is a 1-d tensor with one entry per column in the dtype of the input - and finite when the input is (every
    definitional equality the checks compare with is false for a nan, but `nan > tolerance` is False too: non-finite outputs are
    caught here, once, instead of slipping through the comparisons) -, else a description."""
    if not isinstance(out, torch.Tensor):
        return f"not a tensor: {type(out).__name__}"
    if out.ndim != 1 or out.shape[0] != J.shape[1]:
        return f"shape {list(out.shape)} for input {list(J.shape)}"
    if out.dtype != J.dtype:
        return f"dtype {out.dtype} for input {J.dtype}"
    if finite and not bool(torch.isfinite(out).all()) and bool(torch.isfinite(J).all()):
        return f"non-finite output {out.detach().flatten()[:6].tolist()} for a finite input"
    return None


def rnd(x, k=4):
    return [float(np.round(v, k)) for v in x]


def pref_vector(rng, m, kind=None):
    kind = kind or ["none", "random", "zeros", "onehot", "spread"][int(rng.integers(5))]
    if kind == "none":
        return None
    if kind == "random":
        return [float(x) for x in np.round(rng.uniform(0.05, 2.0, size=m), 4)]
    if kind == "zeros":
        u = np.round(rng.uniform(0.05, 2.0, size=m), 4)
        u[rng.random(m) < 0.4] = 0.0
        if not u.any():
            u[int(rng.integers(m))] = 1.0
        return [float(x) for x in u]
    if kind == "onehot":
        u = np.zeros(m)
        u[int(rng.integers(m))] = 1.0
        return [float(x) for x in u]
    return [float(x) for x in 10.0 ** np.round(rng.uniform(-3, 3, size=m), 2)]
