"""C15 — Each building-block transform computes its specified linear map, for all shapes (DESIGN §4 C15).

The subject of this property IS the transform package, so its classes are driven directly (public names exported by
torchjd.autojac._transform); references are NumPy / torch.autograd restatements of the statement, not of the code.
"""
from __future__ import annotations

import numpy as np
import torch

from .. import aggs, autojac as aj, programs as P
from ..core import fingerprint
from ._common import run_cases, shard_rng, split_shards, tolist

ID = "C15"
LEVEL = "exploration"
RULE = ("per transform (Grad, Jac, Jac-chaining, Init, Diagonalize, Stack, Select, Aggregate): random key sets (1-4 keys, shapes 0-d to 4-d "
        "with size-1 dims, equal-sized keys frequent), random programs connecting outputs to inputs, random cotangents / batch sizes / "
        "chunk sizes; compared with torch.autograd VJPs on a twin graph or a NumPy restatement; non-trivial = >= 2 keys of which two "
        "have the same number of elements, or a mixed 0-d / n-d key set; distinct = case sha1")
ASSUMPTIONS = ["torch.autograd.grad with explicit cotangents on a twin graph is the reference VJP"]
N = {"quick": 320, "thorough": 240000}
SHAPES = [(), (1,), (2,), (3,), (2, 3), (3, 2), (1, 2), (2, 1), (1, 1), (2, 1, 2), (1, 3, 1), (2, 2, 1, 2), (1, 1, 1, 1), (6,), (4,)]
KINDS = ["grad", "jac", "chain", "init", "diagonalize", "stack", "select", "aggregate"]
TOL = 1e-12


def shards(tier, seed):
    out = []
    for k in KINDS:
        out += split_shards(k, N[tier], 2 if tier == "quick" else 4)
    return out


def requirements(tier):
    r = {f"checked:{k}": 150 for k in KINDS}
    r.update({"w_equal_sized_keys": 300, "w_mixed_0d_nd": 200, "w_unreachable_input_zeros": 50, "w_jac_linearity": 100,
              "w_jac_rows_vs_grad": 100, "w_stack_absent_key": 100, "w_stack_members_list_keys_in_different_orders": 30, "w_chunked": 100, "w_one_shot_iterable_argument": 300})
    return r


def T():
    import torchjd.autojac._transform as tr
    return tr


def cont(rng, items, ctx=None):
    """The key collections handed to the constructors are `Iterable[Tensor]`: lists, tuples, dict views and ONE-SHOT iterators."""
    k = int(rng.integers(4))
    if k == 0:
        return list(items)
    if k == 1:
        return tuple(items)
    if k == 2:
        return {x: None for x in items}.keys()
    if ctx is not None:
        ctx.count("w_one_shot_iterable_argument")
    return (x for x in items)


def rand_keys(rng, n=None):
    n = int(n or rng.integers(1, 5))
    shapes = [SHAPES[int(rng.integers(len(SHAPES)))] for _ in range(n)]
    if n >= 2 and rng.random() < 0.5:  # force two keys with equal numel but (often) different shapes
        eq = [s for s in SHAPES if int(np.prod(s)) == int(np.prod(shapes[0]))]
        shapes[1] = eq[int(rng.integers(len(eq)))]
    keys = []
    for s in shapes:
        k = torch.tensor(rng.standard_normal(s), dtype=torch.float64)
        if k.ndim >= 2 and sum(1 for x in s if x > 1) >= 2 and rng.random() < 0.4:
            k = k.transpose(0, -1).contiguous().transpose(0, -1)  # a key with a non-contiguous memory layout (transposed / channels_last parameter)
        keys.append(k.requires_grad_())
    return keys, shapes


def key_witness(ctx, shapes):
    sizes = [int(np.prod(s)) for s in shapes]
    eq = len(sizes) != len(set(sizes))
    mixed = any(len(s) == 0 for s in shapes) and any(len(s) > 0 for s in shapes)
    ctx.count("w_keys_drawn")
    if eq:
        ctx.count("w_equal_sized_keys")
    if mixed:
        ctx.count("w_mixed_0d_nd")
    return len(shapes) >= 2 and (eq or mixed)


class TransformRaised(Exception):
    pass


def guarded(fn, ctx, case, label):
    """A transform applied to a well-formed input must not raise: an exception from the library is a violation, not a harness error."""
    try:
        return fn()
    except Exception as e:
        ctx.violation("transform_raised", case, {"transform": label, "error": repr(e)[:300]})
        raise TransformRaised()


def close(a, b, scale=None):
    if a.shape != b.shape:
        return False
    s = (aj.max_abs(b) if scale is None else scale) + 1.0
    return aj.max_abs(a - b) <= TOL * s


# ------------------------------------------------------------------------------------------------
def gen_prog(rng, i):
    desc = P.gen_program(rng, "float64")
    return {"program": desc, "cseed": int(rng.integers(1 << 30)), "m": int(rng.integers(1, 6)),
            "chunk": [None, 1, 2, 3][int(rng.integers(4))], "retain": bool(rng.random() < 0.5)}


def _slimp(case):
    c = dict(case)
    c["program"] = dict(case["program"])
    return c


def check_grad(case, ctx):
    tr = T()
    desc = case["program"]
    b, twin = P.build(desc), P.build(desc)
    rg = [j for j, l in enumerate(desc["leaves"]) if l["rg"]]
    crng = np.random.default_rng(case["cseed"])
    cots = [torch.tensor(crng.standard_normal(tuple(o.shape)), dtype=torch.float64) for o in b.outputs]
    inputs = [b.leaves[j] for j in rg]
    g = tr.Grad(cont(crng, b.outputs, ctx), cont(crng, inputs, ctx), retain_graph=case["retain"])
    out = guarded(lambda: g(tr.Gradients(dict(zip(b.outputs, cots)))), ctx, _slimp(case), "Grad")
    ref = torch.autograd.grad(twin.outputs, [twin.leaves[j] for j in rg], grad_outputs=cots, allow_unused=True)
    vio = None
    if set(out.keys()) != set(inputs) or not isinstance(out, tr.Gradients):
        vio = ("grad_keys_or_type", {"type": type(out).__name__})
    else:
        for j, inp, r in zip(rg, inputs, ref):
            exp = torch.zeros_like(inp) if r is None else r
            if r is None:
                ctx.count("w_unreachable_input_zeros")
            if not close(out[inp], exp):
                vio = ("grad_is_not_the_vjp", {"leaf": j, "got": tolist(out[inp]), "expected": tolist(exp)})
                break
    if vio:
        ctx.violation(vio[0], _slimp(case), vio[1])
    ctx.count("checked:grad")
    nt = key_witness(ctx, [tuple(desc["leaves"][j]["shape"]) for j in rg])
    ctx.evaluated(fingerprint(_slimp(case)), nontrivial=nt)
    ctx.sample({"transform": "Grad", "ops": [n["op"] for n in desc["nodes"]], "input_shapes": [desc["leaves"][j]["shape"] for j in rg]})


def check_jac(case, ctx):
    tr = T()
    desc = case["program"]
    b, twin = P.build(desc), P.build(desc)
    rg = [j for j, l in enumerate(desc["leaves"]) if l["rg"]]
    m = case["m"]
    crng = np.random.default_rng(case["cseed"])
    def cot(o):
        """Cotangents of one output: Gaussian, or STRUCTURED ones - small integers (exact zeros, +x / -x pairs), blocks that sum to
        exactly zero without being zero (ranking / margin losses: f_i - f_j), all-zero blocks (an output no row looks at)."""
        shape = (m,) + tuple(o.shape)
        k = int(crng.integers(5))
        if k == 0:
            c = crng.integers(-1, 2, size=shape).astype(np.float64)
        elif k == 1:
            c = crng.standard_normal(shape)
            c = c - c.reshape(m, -1).mean(axis=1).reshape((m,) + (1,) * len(o.shape)) if o.numel() >= 2 else c - c.mean()  # every row (or the whole block) sums to 0
            ctx.count("w_zero_sum_cotangents")
        elif k == 2 and len(b.outputs) >= 2:
            c = np.zeros(shape)
        else:
            c = crng.standard_normal(shape)
        return torch.tensor(c, dtype=torch.float64)

    C1 = [cot(o) for o in b.outputs]
    C2 = [cot(o) for o in b.outputs]
    a, bb = float(np.round(crng.uniform(-2, 2), 3)), float(np.round(crng.uniform(-2, 2), 3))
    inputs = [b.leaves[j] for j in rg]
    jac = tr.Jac(cont(crng, b.outputs, ctx), cont(crng, inputs, ctx), case["chunk"], retain_graph=True)
    o1 = guarded(lambda: jac(tr.Jacobians(dict(zip(b.outputs, C1)))), ctx, _slimp(case), "Jac")
    vio = None
    if set(o1.keys()) != set(inputs) or not isinstance(o1, tr.Jacobians):
        vio = ("jac_keys_or_type", {"type": type(o1).__name__})
    if vio is None:
        # row by row == Grad (reference VJP) with that row's cotangents
        tin = [twin.leaves[j] for j in rg]
        for r in range(m):
            ref = torch.autograd.grad(twin.outputs, tin, grad_outputs=[c[r] for c in C1], allow_unused=True, retain_graph=True)
            for j, inp, rr in zip(rg, inputs, ref):
                exp = torch.zeros_like(inp) if rr is None else rr
                if rr is None and r == 0:
                    ctx.count("w_unreachable_input_zeros")
                if o1[inp].shape != (m,) + tuple(inp.shape) or not close(o1[inp][r], exp):
                    vio = ("jac_row_is_not_the_vjp", {"row": r, "leaf": j, "got": tolist(o1[inp][r]) if o1[inp].shape[0] > r else None, "expected": tolist(exp),
                                                      "chunk": case["chunk"], "m": m})
                    break
            if vio:
                break
        ctx.count("w_jac_rows_vs_grad")
    if vio is None:
        o2 = jac(tr.Jacobians(dict(zip(b.outputs, C2))))
        o3 = jac(tr.Jacobians(dict(zip(b.outputs, [a * x + bb * y for x, y in zip(C1, C2)]))))
        for inp in inputs:
            exp = a * o1[inp] + bb * o2[inp]
            if not close(o3[inp], exp, scale=abs(a) * aj.max_abs(o1[inp]) + abs(bb) * aj.max_abs(o2[inp])):
                vio = ("jac_not_linear_in_cotangents", {"a": a, "b": bb})
                break
        ctx.count("w_jac_linearity")
    if vio:
        ctx.violation(vio[0], _slimp(case), vio[1])
    if case["chunk"] is not None and case["chunk"] < m:
        ctx.count("w_chunked")
    ctx.count("checked:jac")
    nt = key_witness(ctx, [tuple(desc["leaves"][j]["shape"]) for j in rg])
    ctx.evaluated(fingerprint(_slimp(case)), nontrivial=nt)
    ctx.sample({"transform": "Jac", "m": m, "chunk": case["chunk"], "ops": [n["op"] for n in desc["nodes"]]})


def gen_chain(rng, i):
    d1 = P.gen_program(rng, "float64", independent_outputs=True)  # mids must be cut points: none an ancestor of another
    b1 = P.build(d1)
    mids = [{"shape": list(o.shape), "rg": True} for o in b1.outputs]
    d2 = P.gen_program(rng, "float64", leaf_descs=mids, vseed=1)
    return {"p1": d1, "p2": d2, "cseed": int(rng.integers(1 << 30)), "m": int(rng.integers(1, 5)), "chunk": [None, 1, 2][int(rng.integers(3))]}


def check_chain(case, ctx):
    tr = T()
    d1, d2 = case["p1"], case["p2"]
    b1 = P.build(d1)
    b2 = P.build(d2, leaves=list(b1.outputs))
    rg = [j for j, l in enumerate(d1["leaves"]) if l["rg"]]
    ins = [b1.leaves[j] for j in rg]
    mids = list(b1.outputs)
    outs = list(b2.outputs)
    m = case["m"]
    crng = np.random.default_rng(case["cseed"])
    C = [torch.tensor(crng.standard_normal((m,) + tuple(o.shape)), dtype=torch.float64) for o in outs]
    j2 = tr.Jac(outs, mids, case["chunk"], retain_graph=True)
    j1 = tr.Jac(mids, ins, case["chunk"], retain_graph=True)
    chained = guarded(lambda: (j1 << j2)(tr.Jacobians(dict(zip(outs, C)))), ctx, {"p1_nodes": [n["op"] for n in d1["nodes"]], "m": m, "chunk": case["chunk"]}, "Jac<<Jac")
    # end to end on a twin (fresh graph): plain autograd VJPs
    t1 = P.build(d1)
    t2 = P.build(d2, leaves=list(t1.outputs))
    tin = [t1.leaves[j] for j in rg]
    vio = None
    for r in range(m):
        ref = torch.autograd.grad(t2.outputs, tin, grad_outputs=[c[r] for c in C], allow_unused=True, retain_graph=True)
        for j, inp, rr in zip(rg, ins, ref):
            exp = torch.zeros_like(inp) if rr is None else rr
            if not close(chained[inp][r], exp):
                vio = ("chained_jac_differs_from_end_to_end", {"row": r, "leaf": j, "got": tolist(chained[inp][r]), "expected": tolist(exp)})
                break
        if vio:
            break
    slim = {**case, "p1": dict(d1), "p2": dict(d2)}
    if vio:
        ctx.violation(vio[0], slim, vio[1])
    ctx.count("checked:chain")
    if case["chunk"] is not None and case["chunk"] < m:
        ctx.count("w_chunked")
    nt = key_witness(ctx, [tuple(o.shape) for o in mids])
    ctx.evaluated(fingerprint(slim), nontrivial=nt)
    ctx.sample({"transform": "Jac∘Jac", "mid_shapes": [list(o.shape) for o in mids], "m": m})


def gen_keys(rng, i):
    return {"kseed": int(rng.integers(1 << 30)), "m": int(rng.integers(1, 5)), "perm_seed": int(rng.integers(1 << 30))}


def check_init(case, ctx):
    tr = T()
    rng = np.random.default_rng(case["kseed"])
    keys, shapes = rand_keys(rng)
    out = guarded(lambda: tr.Init(cont(rng, keys, ctx))(tr.EmptyTensorDict()), ctx, case, "Init")
    vio = None
    if set(out.keys()) != set(keys):
        vio = ("init_keys", {})
    else:
        for k in keys:
            if out[k].shape != k.shape or out[k].dtype != k.dtype or not bool((out[k] == 1).all()):
                vio = ("init_is_not_ones", {"shape": list(k.shape), "got": tolist(out[k])})
    if vio:
        ctx.violation(vio[0], {**case, "shapes": [list(s) for s in shapes]}, vio[1])
    ctx.count("checked:init")
    ctx.evaluated(fingerprint(["init", case]), nontrivial=key_witness(ctx, shapes))
    ctx.sample({"transform": "Init", "key_shapes": [list(s) for s in shapes]})


def check_diagonalize(case, ctx):
    tr = T()
    rng = np.random.default_rng(case["kseed"])
    keys, shapes = rand_keys(rng)
    vals = [torch.tensor(rng.standard_normal(s), dtype=torch.float64) for s in shapes]
    order = list(np.random.default_rng(case["perm_seed"]).permutation(len(keys)))
    considered = [keys[i] for i in order]
    out = guarded(lambda: tr.Diagonalize(cont(rng, considered, ctx))(tr.Gradients(dict(zip(keys, vals)))), ctx, case, "Diagonalize")
    N = sum(int(np.prod(s)) for s in shapes)
    vio = None
    if set(out.keys()) != set(keys) or not isinstance(out, tr.Jacobians):
        vio = ("diagonalize_keys_or_type", {})
    else:
        off = 0
        for i in order:
            n = int(np.prod(shapes[i]))
            exp = np.zeros((N, n))
            exp[off:off + n, :] = np.diag(vals[i].reshape(-1).numpy())
            exp = torch.tensor(exp).reshape((N,) + tuple(shapes[i]))
            if out[keys[i]].shape != exp.shape or not bool(torch.equal(out[keys[i]], exp)):
                vio = ("diagonalize_layout", {"key_index": int(i), "order": [int(x) for x in order], "got": out[keys[i]].reshape(N, -1).tolist(), "expected": exp.reshape(N, -1).tolist()})
                break
            off += n
    if vio:
        ctx.violation(vio[0], {**case, "shapes": [list(s) for s in shapes]}, vio[1])
    ctx.count("checked:diagonalize")
    ctx.evaluated(fingerprint(["diag", case]), nontrivial=key_witness(ctx, shapes))
    ctx.sample({"transform": "Diagonalize", "key_shapes": [list(s) for s in shapes], "key_order": [int(x) for x in order]})


def check_select(case, ctx):
    tr = T()
    rng = np.random.default_rng(case["kseed"])
    keys, shapes = rand_keys(rng)
    vals = [torch.tensor(rng.standard_normal(s), dtype=torch.float64) for s in shapes]
    sub = [i for i in range(len(keys)) if rng.random() < 0.6]
    out = guarded(lambda: tr.Select(cont(rng, [keys[i] for i in sub], ctx), cont(rng, keys, ctx))(tr.Gradients(dict(zip(keys, vals)))), ctx, case, "Select")
    if set(out.keys()) != {keys[i] for i in sub} or any(not torch.equal(out[keys[i]], vals[i]) for i in sub) or not isinstance(out, tr.Gradients):
        ctx.violation("select_is_not_the_restriction", {**case, "shapes": [list(s) for s in shapes]}, {"selected": sub})
    ctx.count("checked:select")
    ctx.evaluated(fingerprint(["select", case]), nontrivial=key_witness(ctx, shapes))


def check_stack(case, ctx):
    tr = T()
    rng = np.random.default_rng(case["kseed"])
    keys, shapes = rand_keys(rng)
    vals = [torch.tensor(rng.standard_normal(s), dtype=torch.float64) for s in shapes]
    t = int(rng.integers(1, 5))
    subsets = [[i for i in range(len(keys)) if rng.random() < 0.6] for _ in range(t)]
    out = guarded(lambda: tr.Stack([tr.Select([keys[i] for i in sub], keys) for sub in subsets])(tr.Gradients(dict(zip(keys, vals)))), ctx, case, "Stack")
    union = sorted(set().union(*map(set, subsets))) if subsets else []
    vio = None
    if set(out.keys()) != {keys[i] for i in union}:
        vio = ("stack_keys", {"subsets": subsets})
    else:
        for i in union:
            exp = torch.stack([vals[i] if i in sub else torch.zeros_like(vals[i]) for sub in subsets])
            if out[keys[i]].shape != exp.shape or not torch.equal(out[keys[i]], exp):
                vio = ("stack_rows", {"key_index": i, "subsets": subsets, "got": out[keys[i]].reshape(t, -1).tolist(), "expected": exp.reshape(t, -1).tolist()})
                break
            if any(i not in sub for sub in subsets):
                ctx.count("w_stack_absent_key")
    # members whose gradients DIFFER from member to member and that list the keys in different orders: member k differentiates
    # y_k = sum_i c[k, i] <w_i, key_i> w.r.t. its own (shuffled) subset of the keys, so row k of the Jacobian of key i is c[k, i] w_i
    if vio is None and len(keys) >= 1:
        ws = [torch.tensor(rng.standard_normal(s), dtype=torch.float64) for s in shapes]
        C = rng.uniform(0.5, 2.0, size=(t, len(keys))) * rng.choice([-1.0, 1.0], size=(t, len(keys)))
        ys = [sum(float(C[k, i]) * (ws[i] * keys[i]).sum() for i in range(len(keys))) for k in range(t)]
        orders = [[int(x) for x in rng.permutation(sub)] if sub else [] for sub in subsets]
        members = [tr.Grad([ys[k]], [keys[i] for i in orders[k]], retain_graph=True) << tr.Init([ys[k]]) for k in range(t)]
        out2 = guarded(lambda: tr.Stack(members)(tr.EmptyTensorDict()), ctx, case, "Stack")
        if set(out2.keys()) != {keys[i] for i in union}:
            vio = ("stack_keys", {"subsets": subsets, "member_key_orders": orders})
        else:
            for i in union:
                exp = torch.stack([float(C[k, i]) * ws[i] if i in subsets[k] else torch.zeros_like(ws[i]) for k in range(t)])
                got = out2[keys[i]]
                if got.shape != exp.shape or got.dtype != exp.dtype or not bool(((got - exp).abs() <= 1e-12 * (exp.abs() + 1)).all()):
                    vio = ("stack_rows", {"key_index": i, "subsets": subsets, "member_key_orders": orders, "got": got.reshape(t, -1).tolist(),
                                          "expected": exp.reshape(t, -1).tolist()})
                    break
            if any(orders[k] != sorted(orders[k]) for k in range(t)) and t >= 2:
                ctx.count("w_stack_members_list_keys_in_different_orders")
    if vio:
        ctx.violation(vio[0], {**case, "shapes": [list(s) for s in shapes]}, vio[1])
    ctx.count("checked:stack")
    ctx.evaluated(fingerprint(["stack", case]), nontrivial=key_witness(ctx, shapes))
    ctx.sample({"transform": "Stack", "key_shapes": [list(s) for s in shapes], "subsets": subsets})


def check_aggregate(case, ctx):
    tr = T()
    from ..proxy import RecordingAggregator
    rng = np.random.default_rng(case["kseed"])
    keys, shapes = rand_keys(rng)
    m = case["m"]
    jacs = [torch.tensor(rng.standard_normal((m,) + s), dtype=torch.float64) for s in shapes]
    order = list(np.random.default_rng(case["perm_seed"]).permutation(len(keys)))
    agg = RecordingAggregator(aggs.make({"name": "Constant", "weights": aggs.random_weights(rng, m)}, torch.float64))
    out = guarded(lambda: tr.Aggregate(agg, cont(rng, [keys[i] for i in order], ctx))(tr.Jacobians(dict(zip(keys, jacs)))), ctx, case, "Aggregate")
    vio = None
    exp_matrix = torch.cat([jacs[i].reshape(m, -1) for i in order], dim=1)
    if len(agg.calls) != 1:
        vio = ("aggregate_calls", {"calls": len(agg.calls)})
    elif not (agg.calls[0][0].shape == exp_matrix.shape and torch.equal(agg.calls[0][0], exp_matrix)):
        vio = ("aggregate_matrix_is_not_the_concatenation_in_key_order", {"order": [int(x) for x in order], "seen": agg.calls[0][0].tolist(), "expected": exp_matrix.tolist()})
    elif set(out.keys()) != set(keys) or not isinstance(out, tr.Gradients):
        vio = ("aggregate_keys_or_type", {})
    else:
        g = agg.calls[0][2]
        off = 0
        for i in order:
            n = int(np.prod(shapes[i]))
            exp = g[off:off + n].reshape(shapes[i])
            if out[keys[i]].shape != exp.shape or not torch.equal(out[keys[i]], exp):
                vio = ("aggregate_slice_back", {"key_index": int(i), "order": [int(x) for x in order], "got": tolist(out[keys[i]]), "expected": tolist(exp)})
                break
            off += n
    if vio:
        ctx.violation(vio[0], {**case, "shapes": [list(s) for s in shapes]}, vio[1])
    ctx.count("checked:aggregate")
    ctx.evaluated(fingerprint(["aggregate", case]), nontrivial=key_witness(ctx, shapes))
    ctx.sample({"transform": "Aggregate", "key_shapes": [list(s) for s in shapes], "key_order": [int(x) for x in order], "rows": m})


TABLE = {"grad": (gen_prog, check_grad), "jac": (gen_prog, check_jac), "chain": (gen_chain, check_chain), "init": (gen_keys, check_init),
         "diagonalize": (gen_keys, check_diagonalize), "stack": (gen_keys, check_stack), "select": (gen_keys, check_select),
         "aggregate": (gen_keys, check_aggregate)}


def run_shard(shard, ctx):
    gen, chk = TABLE[shard["kind"]]
    def gen2(r, i):
        c = gen(r, i)
        c["kind"] = shard["kind"]
        return c

    def chk2(case, ctx):
        try:
            chk(case, ctx)
        except TransformRaised:
            ctx.evaluated()
    run_cases(ctx, shard_rng(ctx.seed, ID, ctx.shard_index), shard["n"], gen2, chk2)


def replay(case, ctx):
    try:
        TABLE[case["kind"]][1](case, ctx)
    except TransformRaised:
        pass


def aggregate_one_shot_key_order(v):
    """F8: Aggregate built from a one-shot key_order iterable fails at construction (key_order consumed three times)."""
    return v["kind"] == "transform_raised" and v["detail"].get("transform") == "Aggregate" and "must match with the `required_keys`" in v["detail"].get("error", "")


CLASSIFIERS = {"aggregate_one_shot_key_order": aggregate_one_shot_key_order}
