"""C13 — retain_graph means what it means in torch.autograd (DESIGN §4 C13).

History + twin: every step of a history runs on graph 1 (torchjd call or torch.autograd call) and as its torch.autograd
equivalent on a bit-identical twin graph; after every step the outcome, the node-by-node freed signature of the whole
autograd graph and a literal follow-up differentiation probe must agree.
"""
from __future__ import annotations

import itertools

import numpy as np
import torch

from .. import aggs, autojac as aj, programs as P
from ..core import fingerprint
from . import C02
from ._common import run_cases, shard_rng, split_shards, tolist

ID = "C13"
LEVEL = "exploration"
RULE = ("histories of <= 3 calls drawn from {backward, mtl_backward, torch.autograd.backward, torch.autograd.grad} x retain_graph in "
        "{False, True} x chunk in {None,1,2,m}: ALL 20 + 400 histories of length <= 2 (exhaustive over step kinds) on several programs "
        "each, random ones of length 3; programs with and without saved tensors; heads share no node besides the features; non-trivial "
        "= the history contains a torchjd call with retain_graph=False on a graph that has saved tensors; distinct = (program, history)")
EXHAUSTIVE_NOTE = {"quick": "all histories of length <= 2 over the 20 step kinds (420) x 2 programs", "thorough": "all histories of length <= 2 over the 20 step kinds (420) x 360 programs"}
ASSUMPTIONS = ["a node fails in a further differentiation iff its saved tensors were released (probed literally as well)",
               "mtl_backward compared with autograd.backward(losses, inputs=all listed parameters) on programs whose heads share no "
               "graph node besides the features, default parameter lists"]
PROGS = {"quick": 2, "thorough": 360}
RANDOM3 = {"quick": 400, "thorough": 144000}
CHUNKS = [None, 1, 2, "m"]
STEP_KINDS = ([("bw", r, c) for r in (False, True) for c in CHUNKS] + [("mtl", r, c) for r in (False, True) for c in CHUNKS]
              + [("ag_bw", r, None) for r in (False, True)] + [("ag_grad", r, None) for r in (False, True)])


def exhaustive(tier):
    return True


def all_histories():
    return [(a,) for a in STEP_KINDS] + list(itertools.product(STEP_KINDS, STEP_KINDS))


def shards(tier, seed):
    hs = list(range(len(all_histories())))
    n = 12 if tier == "quick" else 24
    out = [{"kind": "exhaustive", "hist": hs[i::n], "progs": PROGS[tier]} for i in range(n)]
    out += split_shards("random3", RANDOM3[tier], 4 if tier == "quick" else 8)
    return out


def requirements(tier):
    return {"histories_exhaustive": 420, "steps_compared": 1500, "signature_compared": 1500, "probe_compared": 1500,
            "retain_true_all_live_checked": 200, "second_call_identical_checked": 100, "both_raised": 100,
            "w_torchjd_retain_false_on_saved_graph": 200, "w_graph_without_saved_tensors": 50, "w_chunked_retain_false": 50,
            "w_mtl_retain_false": 100, "w_freed_nodes_seen": 200, "w_overlapping_explicit_task_lists": 50}


def gen_program(rng, linear):
    """Heads share no node besides the features, and every feature is used by at least one loss (otherwise torchjd sweeps
    and frees the trunk below an unused feature while autograd.backward(losses) never gets there: no torch.autograd
    equivalent to compare with — outside the statement)."""
    for _ in range(200):
        d = P.gen_mtl_program(rng, "float64", disjoint_heads=True, linear=linear, n_heads=int(rng.integers(1, 4)))
        if all(any(["f", i] in h["deps"] for h in d["heads"]) for i in range(len(d["features"]))):
            return d
    raise RuntimeError("no program with all features used")


def all_params(desc):
    """Reference default lists == what the defaulted torchjd call uses (C12 decides that); used as explicit inputs on the twin."""
    return None


_CALLS = [0]


def do_step(kind, retain, chunk, b, desc, torchjd_side, listed, lists="default"):
    """Runs one step on a built graph.  Returns None or the exception."""
    from torchjd import backward, mtl_backward
    t = len(b.losses)
    k = t if chunk == "m" else chunk
    shared_l, task_l = listed
    params = [C02.leaf_of(b, r) for r in shared_l] + [C02.leaf_of(b, r) for r in sorted({tuple(x) for refs in task_l for x in refs})]
    try:
        if kind in ("bw", "mtl") and torchjd_side:
            agg = aggs.make({"name": "Sum"}, torch.float64)
            _CALLS[0] += 1
            positional = _CALLS[0] % 3 == 0  # every third call passes its options BY POSITION, in the documented order
            if kind == "bw":
                if positional:
                    backward(b.losses, agg, params, retain, k)
                else:
                    backward(b.losses, agg, inputs=params, retain_graph=retain, parallel_chunk_size=k)
            elif lists == "union":
                # explicit parameter lists that OVERLAP although the heads share no graph node: every task lists the union of
                # all tasks' parameters (the ones a loss does not depend on just receive zeros) - same nodes touched as the defaults
                union = [C02.leaf_of(b, list(r)) for r in sorted({tuple(x) for refs in task_l for x in refs})]
                mtl_backward(b.losses, list(b.features), agg, tasks_params=[list(union) for _ in b.losses],
                             shared_params=[C02.leaf_of(b, r) for r in shared_l], retain_graph=retain, parallel_chunk_size=k)
            elif positional:
                mtl_backward(b.losses, list(b.features), agg, None, None, retain, k)
            else:
                mtl_backward(b.losses, list(b.features), agg, retain_graph=retain, parallel_chunk_size=k)
        elif kind in ("bw", "mtl", "ag_bw"):
            torch.autograd.backward(b.losses, grad_tensors=[torch.ones_like(l) for l in b.losses], inputs=params, retain_graph=retain)
        else:  # ag_grad: first loss w.r.t. everything listed
            torch.autograd.grad(b.losses[0], params, retain_graph=retain, allow_unused=True)
    except Exception as e:
        return e
    return None


def probe(b, listed):
    """Literal follow-up differentiation of every loss and every feature (retain_graph=True: the probe frees nothing)."""
    shared_l, task_l = listed
    params = [C02.leaf_of(b, r) for r in shared_l] + [C02.leaf_of(b, r) for r in sorted({tuple(x) for refs in task_l for x in refs})]
    out = []
    for root in list(b.losses) + list(b.features):
        try:
            torch.autograd.grad(root, params, grad_outputs=torch.ones_like(root), retain_graph=True, allow_unused=True)
            out.append("ok")
        except RuntimeError:
            out.append("raises")
    return out


def check_case(case, ctx):
    desc = case["program"]
    slim = {**case, "program": C02._slim({"program": desc})["program"]}
    b, twin, probe_b, cut = P.build_mtl(desc), P.build_mtl(desc), P.build_mtl(desc), P.build_mtl(desc, cut=True)
    if P.feature_nodes_chained(b.features):
        chained = True
    else:
        chained = False
    listed = C02.default_lists(desc, probe_b, cut)
    sset = {tuple(r) for r in listed[0]}
    if any(tuple(r) in sset for refs in listed[1] for r in refs) or not listed[0]:
        ctx.not_judged("overlap_or_empty_shared")
        return
    lists = case.get("lists", "default")
    if lists == "union" and len(b.losses) >= 2:
        ctx.count("w_overlapping_explicit_task_lists")
    sig0 = P.freed_signature(list(b.losses) + list(b.features))
    has_saved = any(s == "live" for _, st in sig0 for _, s in st)
    vio = None
    nontrivial = False
    for si, (kind, retain, chunk) in enumerate(case["history"]):
        label = f"{si}:{kind}/retain={retain}/chunk={chunk}"
        grads_before = [None if l.grad is None else l.grad.detach().clone() for l in b.shared + b.pool]
        e1 = do_step(kind, retain, chunk, b, desc, True, listed, lists)
        e2 = do_step(kind, retain, chunk, twin, desc, False, listed)
        ctx.count("steps_compared")
        if kind in ("bw", "mtl") and not retain and has_saved:
            nontrivial = True
            ctx.count("w_torchjd_retain_false_on_saved_graph")
            if chunk in (1, 2):
                ctx.count("w_chunked_retain_false")
            if kind == "mtl":
                ctx.count("w_mtl_retain_false")
        if (e1 is None) != (e2 is None):
            vio = ("outcome_differs_from_autograd", {"step": label, "torchjd": repr(e1)[:200], "autograd": repr(e2)[:200], "features_chained": chained,
                                                     "retain_graph": retain, "kind": "mtl_backward_raised" if kind == "mtl" and e1 is not None else kind})
            break
        if e1 is not None:
            if not isinstance(e1, RuntimeError):
                vio = ("unexpected_exception_type", {"step": label, "torchjd": repr(e1)[:200], "autograd": repr(e2)[:200]})
            ctx.count("both_raised")
            break  # after a failing call the two graphs may legitimately differ (order of traversal): stop here
        s1 = P.freed_signature(list(b.losses) + list(b.features))
        s2 = P.freed_signature(list(twin.losses) + list(twin.features))
        ctx.count("signature_compared")
        if any(s == "freed" for _, st in s2 for _, s in st):
            ctx.count("w_freed_nodes_seen")
        if s1 != s2:
            diff = [(i, a, bb) for i, (a, bb) in enumerate(zip(s1, s2)) if a != bb][:4]
            vio = ("freed_signature_differs_from_autograd", {"step": label, "first_differences(index, torchjd, autograd)": diff, "features_chained": chained})
            break
        p1, p2 = probe(b, listed), probe(twin, listed)
        ctx.count("probe_compared")
        if p1 != p2:
            vio = ("follow_up_differentiation_differs", {"step": label, "torchjd_graph": p1, "autograd_graph": p2})
            break
        if retain and kind in ("bw", "mtl"):
            ctx.count("retain_true_all_live_checked")
            if s1 != sig0 and all(k2[0] in ("bw", "mtl", "ag_bw", "ag_grad") and k2[1] for k2 in case["history"][:si + 1]):
                vio = ("graph_not_fully_usable_after_retain_graph_true", {"step": label})
                break
            # an identical second call adds an identical update
            g1 = [None if l.grad is None else l.grad.detach().clone() for l in b.shared + b.pool]
            e = do_step(kind, retain, chunk, b, desc, True, listed, lists)
            e_t = do_step(kind, retain, chunk, twin, desc, False, listed)
            if e is not None:
                vio = ("second_identical_call_failed", {"step": label, "error": repr(e)[:200]})
                break
            for l, a, bfr in zip(b.shared + b.pool, g1, grads_before):
                if a is None:
                    continue
                upd = a if bfr is None else a - bfr
                exp = a + upd
                if l.grad is None or aj.max_abs(l.grad - exp) > 1e-12 * (aj.max_abs(exp) + 1):
                    vio = ("second_identical_call_adds_different_update", {"step": label, "grad": tolist(l.grad), "expected": tolist(exp)})
                    break
            ctx.count("second_call_identical_checked")
            if vio:
                break
    if vio:
        ctx.violation(vio[0], slim, vio[1])
    if not has_saved:
        ctx.count("w_graph_without_saved_tensors")
    ctx.evaluated(fingerprint(slim), nontrivial=nontrivial)
    ctx.sample({"history": case["history"], "trunk_ops": [n["op"] for n in desc["trunk_nodes"]], "heads": [[n["op"] for n in h["nodes"]] for h in desc["heads"]],
                "graph_has_saved_tensors": has_saved})


def run_shard(shard, ctx):
    rng = shard_rng(ctx.seed, ID, ctx.shard_index)
    if shard["kind"] == "exhaustive":
        H = all_histories()
        for hi in shard["hist"]:
            for p in range(shard["progs"]):
                hist = [list(s) for s in H[hi]]
                run_cases(ctx, rng, 1, lambda r, i: {"program": gen_program(r, linear=(p % 4 == 3)), "history": hist,
                                                     "lists": "union" if r.random() < 0.3 else "default"}, check_case)
            ctx.count("histories_exhaustive")
    else:
        def gen(r, i):
            hist = [list(STEP_KINDS[int(r.integers(len(STEP_KINDS)))]) for _ in range(3)]
            return {"program": gen_program(r, linear=bool(r.random() < 0.15)), "history": hist, "lists": "union" if r.random() < 0.3 else "default"}
        run_cases(ctx, rng, shard["n"], gen, check_case)


def replay(case, ctx):
    case = dict(case)
    case["history"] = [tuple(s) for s in case["history"]]
    check_case(case, ctx)


def _chained(v):
    d = v["detail"]
    return (v["kind"] == "outcome_differs_from_autograd" and d.get("features_chained") is True and d.get("retain_graph") is False
            and "second time" in d.get("torchjd", "") and d.get("autograd") == "None")


CLASSIFIERS = {"chained_features_freed": _chained}
