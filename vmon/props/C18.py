"""C18 — MGDA, PCGrad, CAGrad, GradDrop and Random satisfy their published definitions (DESIGN §4 C18).

PCGrad is explored by SCHEDULE INJECTION: torch.randperm is scripted so that every combination of projection orders is forced
(exhaustive for m <= 3 in the quick tier, m <= 4 in the thorough tier), and each output must equal the reference for that schedule.
"""
from __future__ import annotations

import itertools

import numpy as np
import torch

from .. import aggs, matrices as M, refmodels as R
from ..boundary import REC
from ..core import fingerprint
from . import _equiv as E
from ._agg import DT, EPS, as64, call, shape_ok, to_t
from ._common import run_cases, shard_rng, split_shards

ID = "C18"
LEVEL = "exploration"
RULE = ("MGDA / Random / CAGrad / GradDrop on hostile matrices against their defining equations (simplex weights, never longer than the mean, exact "
        "min-norm point for two rows; strictly positive convex weights; distance c|g0| from the mean row or zero at stationarity, mean for c = 0; "
        "per-coordinate candidate pair of GradDrop, pure columns kept whole for every seed, recorded uniform draws vs f(P)); PCGrad: ALL "
        "(m-1)!^m combinations of projection orders forced through a scripted torch.randperm for m <= 3 (quick) / m <= 4 (thorough, 1296 "
        "schedules per matrix) and compared with the reference for that schedule, free-seed outputs must lie in the finite candidate set; "
        "non-trivial = the matrix contains a conflict (PCGrad / MGDA / CAGrad) or a mixed-sign column (GradDrop); distinct = case sha1")
EXHAUSTIVE_NOTE = {"quick": "PCGrad: all 8 order combinations for every m = 3 matrix (and the single one for m = 2), seeded sample of the 1296 for m = 4",
                   "thorough": "PCGrad: all (m-1)!^m order combinations for every matrix with m <= 4"}
ASSUMPTIONS = ["PCGrad decisions with an inner product within 1e-9 s^2 of zero are not judged", "CAGrad between stationarity (rho <= 1e-9 s) and "
               "rho >= 2e-3 s (1e-2 s float32) is not judged: the rescaling c|g0|/|g_w| amplifies solver rounding there"]
N = {"quick": {"mgda": 2500, "random": 600, "cagrad": 500, "graddrop": 2500, "pcgrad_sched": 220, "pcgrad_free": 800},
     "thorough": {"mgda": 320000, "random": 80000, "cagrad": 80000, "graddrop": 320000, "pcgrad_sched": 3600, "pcgrad_free": 120000}}


def exhaustive(tier):
    return False


def shards(tier, seed):
    out = []
    for kind, n in N[tier].items():
        out += split_shards(kind, n, {"mgda": 3, "random": 1, "cagrad": 4, "graddrop": 2, "pcgrad_sched": 4, "pcgrad_free": 2}[kind] * (1 if tier == "quick" else 3))
    if tier == "thorough":
        out += split_shards("graddrop_freq", 40, 4)
    return out


def requirements(tier):
    r = {"mgda_simplex_checked": 1000, "mgda_not_longer_than_mean_checked": 1500, "mgda_two_rows_exact_checked": 200, "random_checked": 400,
         "cagrad_distance_checked": 150, "cagrad_c0_checked": 30, "cagrad_stationary_checked": 5, "graddrop_candidate_pair_checked": 1500,
         "graddrop_draws_vs_purity_checked": 1000, "graddrop_pure_column_checked": 300, "pcgrad_schedules_forced": 500, "pcgrad_distinct_outputs_m3": 2,
         "pcgrad_free_seed_in_candidate_set": 200, "pcgrad_no_conflict_is_sum": 50, "pcgrad_replayed_draws_m_gt_4": 50, "randperm_recorder_hits": 1,
         "rand_recorder_hits": 1, "w_leak_0_and_1": 100, "w_float32": 300, "w_graddrop_non_default_f": 300, "w_graddrop_other_magnitudes": 200, "w_cagrad_ill_conditioned_judged": 10}
    if tier == "thorough":
        r["pcgrad_m4_all_1296"] = 20
        r["graddrop_frequency_checked"] = 100
    return r


def _out(desc, Jt, ctx, case, seed=0, script=None):
    out, err, rec = E.run(desc, Jt, seed=seed, script=script)
    if err is not None:
        ctx.violation("aggregator_raised", case, {"error": repr(err)[:300]})
        return None, rec
    return out, rec


# ---------------------------------------------------------------------------------------------------------------- MGDA
def gen_mgda(rng, i):
    dname = "float32" if rng.random() < 0.25 else "float64"
    if i % 4 == 0:
        J, klass = M.gen(rng, m=2, max_n=8)
    else:
        J, klass = M.gen(rng, max_m=7, max_n=8)
    if rng.random() < 0.3:
        J = J * 10.0 ** rng.uniform(-4, 4)
    agg = {"name": "MGDA"}
    if rng.random() < 0.5:
        # the statement holds for every iteration budget >= 1 (exact line searches never increase the norm; two rows are solved by
        # the first one): small budgets and epsilon = 0 as well as the defaults
        agg = {"name": "MGDA", "max_iters": [1, 2, 3, 5, 10, 30][int(rng.integers(6))], "epsilon": [1e-3, 0.0][int(rng.integers(2))]}
    return {"J": J.tolist(), "class": klass, "dtype": dname, "agg": agg}


def check_mgda(case, ctx):
    dname = case["dtype"]
    Jt = to_t(np.array(case["J"], dtype=np.float64).reshape(len(case["J"]), -1), dname)
    J = as64(Jt)
    m, n = J.shape
    out, rec = _out(case["agg"], Jt, ctx, case)
    if out is None:
        ctx.evaluated()
        return
    s = M.smax(J)
    eps = EPS[dname]
    w = rec["weights"] if rec["weights"] is not None and rec["weights"].shape == (m,) else None
    if w is None and m <= n and np.linalg.matrix_rank(J) == m:
        w = R.lstsq_weights(J, out)
    tol = {"float64": 1e-9, "float32": 1e-4}[dname]
    vio = None
    if w is not None:
        ctx.count("mgda_simplex_checked")
        if (w < -1e-12).any() or abs(w.sum() - 1.0) > tol:
            vio = ("mgda_weights_not_on_the_simplex", {"weights": w.tolist(), "sum": float(w.sum())})
    mean = J.mean(axis=0)
    ctx.count("mgda_not_longer_than_mean_checked")
    if vio is None and np.linalg.norm(out) > np.linalg.norm(mean) * (1 + {"float64": 1e-12, "float32": 1e-5}[dname]) + 64 * eps * s:
        vio = ("mgda_longer_than_the_mean", {"norm_A": float(np.linalg.norm(out)), "norm_mean": float(np.linalg.norm(mean))})
    if vio is None and m == 2:
        g1, g2 = J[0], J[1]
        d = g1 - g2
        t = 0.5 if d @ d == 0 else float(np.clip(-(g2 @ d) / (d @ d), 0.0, 1.0))
        exact = t * g1 + (1 - t) * g2
        e = float(np.linalg.norm(out - exact))
        ctx.maximum(f"mgda_two_rows_{dname}", e / max(s, 1e-300))
        ctx.count("mgda_two_rows_exact_checked")
        if e > {"float64": 1e-9, "float32": 1e-4}[dname] * s:
            vio = ("mgda_two_rows_not_the_min_norm_point", {"output": out.tolist(), "exact": exact.tolist(), "t": t})
    if vio:
        ctx.violation(vio[0], case, vio[1])
    if dname == "float32":
        ctx.count("w_float32")
    if case["agg"].get("max_iters", 100) <= 5:
        ctx.count("w_mgda_small_iteration_budget")
    ctx.evaluated(fingerprint(case), nontrivial=M.has_conflict(J))
    ctx.sample({"agg": case["agg"], "J": np.round(J, 4).tolist(), "dtype": dname})


# ---------------------------------------------------------------------------------------------------------------- Random
def gen_random(rng, i):
    J, klass = M.gen(rng, max_m=8, max_n=6)
    return {"J": J.tolist(), "dtype": "float32" if rng.random() < 0.3 else "float64", "agg": {"name": "Random"}, "seed": int(rng.integers(1 << 20))}


def check_random(case, ctx):
    dname = case["dtype"]
    Jt = to_t(np.array(case["J"], dtype=np.float64).reshape(len(case["J"]), -1), dname)
    J = as64(Jt)
    m = J.shape[0]
    out, rec = _out(case["agg"], Jt, ctx, case, seed=case["seed"])
    if out is None:
        ctx.evaluated()
        return
    w = rec["weights"] if rec["weights"] is not None and rec["weights"].shape == (m,) else None
    if w is None and np.linalg.matrix_rank(J) == m:
        w = R.lstsq_weights(J, out)
    if w is None:
        ctx.not_judged("random_weights_unavailable")
        return
    ctx.count("random_checked")
    tol = {"float64": 1e-9, "float32": 1e-4}[dname]
    from_hook = rec["weights"] is not None
    if (w <= (0.0 if from_hook else -tol)).any() or abs(w.sum() - 1) > tol:
        ctx.violation("random_weights_not_a_strictly_positive_convex_combination", case, {"weights": w.tolist()})
    elif float(np.linalg.norm(out - J.T @ w)) > tol * max(M.smax(J), 1e-300) * 10:
        ctx.violation("random_output_is_not_the_weighted_combination", case, {"output": out.tolist()})
    ctx.evaluated(fingerprint(case), nontrivial=m >= 2)


# ---------------------------------------------------------------------------------------------------------------- CAGrad
def gen_cagrad(rng, i):
    dname = "float32" if rng.random() < 0.25 else "float64"
    r = rng.random()
    if r < 0.15:
        # ill-conditioned: two large, almost opposite rows whose mean is tiny compared to the rows (sigma_min / sigma_max down to 1e-4)
        m, n = int(rng.integers(2, 5)), int(rng.integers(2, 7))
        big = float(10 ** rng.uniform(1, 3.5))
        J = rng.standard_normal((m, n))
        J[0, 0], J[1, 0] = big, -big * (1 + rng.uniform(-1e-3, 1e-3))
        klass = "opposite_large_rows"
    elif r < 0.25:
        J, klass = M.gen(rng, klass="stationary_strong", m=int(rng.integers(2, 5)), max_n=6)
    elif r < 0.5:
        J, klass = M.gen(rng, klass=["antiparallel", "gaussian", "lowrank", "duplicated", "rowscale"][int(rng.integers(5))], max_m=5, max_n=7)
    else:
        m = int(rng.integers(1, 6))
        J, klass = M.well_conditioned(rng, m, int(rng.integers(m, m + 4)), cond=float(10 ** rng.uniform(0, 1.5))), "well_conditioned"
    c = 0.0 if rng.random() < 0.15 else float(np.round(rng.uniform(0.1, 2.5), 2))
    return {"J": J.tolist(), "class": klass, "dtype": dname, "agg": {"name": "CAGrad", "c": c}}


def check_cagrad(case, ctx):
    dname, a = case["dtype"], case["agg"]
    Jt = to_t(np.array(case["J"], dtype=np.float64).reshape(len(case["J"]), -1), dname)
    J = as64(Jt)
    m, n = J.shape
    s = M.smax(J)
    if s < 2e-4:
        ctx.not_judged("s_below_2_norm_eps")
        return
    out, rec = _out(a, Jt, ctx, case)
    if out is None:
        ctx.evaluated()
        return
    c = a["c"]
    g0 = J.mean(axis=0)
    _, rho2 = R.min_norm_point(J @ J.T)
    rho = float(np.sqrt(rho2))
    tau = {"float64": 1e-6, "float32": 5e-3}[dname]
    vio = None
    if c == 0.0:
        ctx.count("cagrad_c0_checked")
        is_mean = np.linalg.norm(out - g0) <= tau * s
        is_zero_at_stationarity = rho <= 1e-3 * s and not out.any()
        if is_zero_at_stationarity:
            ctx.count("obs_cagrad_c0_zero_at_stationarity")
        if not (is_mean or is_zero_at_stationarity):
            vio = ("cagrad_c0_is_not_the_mean", {"output": out.tolist(), "mean": g0.tolist(), "rho_over_s": rho / s})
    else:
        dist = float(np.linalg.norm(out - g0))
        target = c * float(np.linalg.norm(g0))
        # below ~10 x norm_eps (normalised) the rescaling c|g0|/|g_w| amplifies solver rounding; calibrated on the unchanged tree:
        # float64 error <= 4e-13 for rho >= 1e-4 s, 5e-4 below; float32 <= 1e-5 for rho >= 1e-3 s
        lo = {"float64": 2e-3, "float32": 1e-2}[dname]
        if rho >= lo * s:
            ctx.count("cagrad_distance_checked")
            ctx.maximum(f"cagrad_distance_{dname}", abs(dist - target) / (s * (1 + c)))
            if abs(dist - target) > tau * s * (1 + c):
                vio = ("cagrad_not_at_distance_c_g0_from_the_mean", {"distance": dist, "c_norm_g0": target, "rho_over_s": rho / s})
        elif rho <= 1e-9 * s and dname == "float64":
            # (float32: the Gramian is only known to sqrt(eps) s = 3e-4 s, above norm_eps: stationarity is not decidable there)
            ctx.count("cagrad_stationary_checked")
            if out.any() and abs(dist - target) > tau * s * (1 + c):
                vio = ("cagrad_at_stationarity_neither_zero_nor_at_distance", {"output": out.tolist(), "distance": dist, "c_norm_g0": target})
        else:
            ctx.not_judged("cagrad_near_stationary")
    if vio:
        ctx.violation(vio[0], case, vio[1])
    if dname == "float32":
        ctx.count("w_float32")
    if case["class"] == "opposite_large_rows" and rho >= {"float64": 2e-3, "float32": 1e-2}[dname] * s and c > 0:
        ctx.count("w_cagrad_ill_conditioned_judged")
    ctx.evaluated(fingerprint(case), nontrivial=M.has_conflict(J))
    ctx.sample({"agg": a, "J": np.round(J, 4).tolist(), "rho_over_s": rho / s, "dtype": dname})


# ---------------------------------------------------------------------------------------------------------------- GradDrop
def gen_graddrop(rng, i):
    dname = "float32" if rng.random() < 0.25 else "float64"
    J, klass = M.gen(rng, klass=["gaussian", "ints", "nonconflicting", "zero_rows", "rowscale", "duplicated"][int(rng.integers(6))], max_m=6, max_n=8)
    m = J.shape[0]
    if rng.random() < 0.3:
        j = int(rng.integers(J.shape[1]))
        J[:, j] = np.abs(J[:, j]) * (1 if rng.random() < 0.5 else -1)  # a pure column
    r = rng.random()
    if r < 0.3:
        leak = None
    elif r < 0.5:
        leak = [float(x) for x in rng.integers(0, 2, size=m)]  # only 0 and 1
    else:
        leak = [float(x) for x in np.round(rng.uniform(0, 1, size=m), 3)]
    f = ["identity", "identity", "square", "sqrt", "steep"][int(rng.integers(5))]
    if rng.random() < 0.25:
        # the purity is a ratio: the definition holds at every magnitude (an absolute floor on its denominator is a defect)
        J = J * 10.0 ** int(rng.integers(-12, 13) if dname == "float32" else rng.integers(-100, 101))
        klass += "+magnitude"
    return {"J": J.tolist(), "class": klass, "dtype": dname, "agg": {"name": "GradDrop", "leak": leak, "f": f}, "seed": int(rng.integers(1 << 20))}


def check_graddrop(case, ctx):
    dname, a = case["dtype"], case["agg"]
    Jt = to_t(np.array(case["J"], dtype=np.float64).reshape(len(case["J"]), -1), dname)
    J = as64(Jt)
    m, n = J.shape
    leak = np.zeros(m) if a["leak"] is None else as64(torch.tensor(a["leak"], dtype=DT[dname]))
    pos, neg = R.graddrop_candidates(J, leak)
    eps = EPS[dname]
    colscale = np.abs(J).sum(axis=0) + 1e-300
    vio = None
    for sd in (case["seed"], case["seed"] + 1, case["seed"] + 2):
        out, rec = _out(a, Jt, ctx, case, seed=sd)
        if out is None:
            ctx.evaluated()
            return
        is_pos = np.abs(out - pos) <= 16 * eps * colscale
        is_neg = np.abs(out - neg) <= 16 * eps * colscale
        ctx.count("graddrop_candidate_pair_checked")
        if not (is_pos | is_neg).all():
            j = int(np.argmin(is_pos | is_neg))
            vio = ("graddrop_coordinate_outside_the_candidate_pair", {"coordinate": j, "output": float(out[j]), "keep_positive": float(pos[j]), "keep_negative": float(neg[j]),
                                                                        "column": J[:, j].tolist(), "leak": leak.tolist()})
            break
        pure = ((J >= 0).all(axis=0) | (J <= 0).all(axis=0))
        if pure.any():
            ctx.count("graddrop_pure_column_checked")
            full = J.sum(axis=0)
            if (np.abs(out - full)[pure] > 16 * eps * colscale[pure]).any():
                vio = ("graddrop_pure_column_not_kept_whole", {"output": out.tolist(), "column_sums": full.tolist(), "pure": pure.tolist()})
                break
        if rec["rand"]:
            ctx.count("rand_recorder_hits")
            U = rec["rand"][0].double().numpy()
            if U.shape == (n,):
                P = R.GRADDROP_F[a.get("f", "identity")](R.graddrop_purity(J))  # f(P): the probability of keeping the positive sign
                margin = np.abs(P - U) > {"float64": 1e-9, "float32": 1e-5}[dname]
                mixed = ~pure & ~np.isnan(P) & margin & (np.abs(pos - neg) > 64 * eps * colscale)
                expect_pos = P > U
                ctx.count("graddrop_draws_vs_purity_checked")
                wrong = mixed & (expect_pos != is_pos) & ~(is_pos & is_neg)
                if wrong.any():
                    j = int(np.argmax(wrong))
                    vio = ("graddrop_sign_choice_contradicts_the_draw", {"coordinate": j, "P": float(P[j]), "U": float(U[j]), "kept_positive": bool(is_pos[j])})
                    break
    if vio:
        ctx.violation(vio[0], case, vio[1])
    if a["leak"] is not None and 0.0 in a["leak"] and 1.0 in a["leak"]:
        ctx.count("w_leak_0_and_1")
    if a.get("f", "identity") != "identity":
        ctx.count("w_graddrop_non_default_f")
    if dname == "float32":
        ctx.count("w_float32")
    if case.get("class", "").endswith("+magnitude"):
        ctx.count("w_graddrop_other_magnitudes")
    mixed_col = bool((((J > 0).any(axis=0)) & ((J < 0).any(axis=0))).any())
    ctx.evaluated(fingerprint(case), nontrivial=mixed_col)
    ctx.sample({"agg": a, "J": np.round(J, 3).tolist(), "dtype": dname})


def gen_gd_freq(rng, i):
    m = int(rng.integers(2, 5))
    J = rng.standard_normal((m, 3))
    return {"J": J.tolist(), "dtype": "float64", "agg": {"name": "GradDrop", "leak": None}, "seeds": 2000}


def check_gd_freq(case, ctx):
    Jt = to_t(np.array(case["J"], dtype=np.float64), "float64")
    J = as64(Jt)
    pos, neg = R.graddrop_candidates(J, np.zeros(J.shape[0]))
    P = R.graddrop_purity(J)
    cnt = np.zeros(J.shape[1])
    agg = aggs.make(case["agg"], torch.float64)
    N_ = case["seeds"]
    for sd in range(N_):
        torch.manual_seed(sd)
        o = as64(agg(Jt))
        cnt += np.abs(o - pos) <= np.abs(o - neg)
    for j in range(J.shape[1]):
        if abs(pos[j] - neg[j]) < 1e-9:
            continue
        p = P[j]
        sigma = np.sqrt(max(p * (1 - p), 1e-12) / N_)
        ctx.count("graddrop_frequency_checked")
        ctx.maximum("graddrop_frequency_deviation_in_sigma", abs(cnt[j] / N_ - p) / sigma)
        if abs(cnt[j] / N_ - p) > 6 * sigma + 1e-3:
            ctx.violation("graddrop_sign_frequency_differs_from_purity", case, {"coordinate": j, "frequency_keep_positive": cnt[j] / N_, "f(P)": p})
    ctx.evaluated(fingerprint(case), nontrivial=True)


# ---------------------------------------------------------------------------------------------------------------- PCGrad
def effective_schedules(m):
    """All (m-1)!^m combinations of projection orders: per row i an order of the other rows."""
    per_row = [[list(p) for p in itertools.permutations([j for j in range(m) if j != i])] for i in range(m)]
    return itertools.product(*per_row)


def gen_pc_sched(rng, i):
    m = [2, 3, 3, 3, 4][int(rng.integers(5))]
    dname = "float32" if rng.random() < 0.2 else "float64"
    klass = ["gaussian", "antiparallel", "lowrank", "duplicated", "rowscale"][int(rng.integers(5))]
    J, klass = M.gen(rng, klass=klass, m=m, n=int(rng.integers(2, 7)))
    return {"J": J.tolist(), "class": klass, "dtype": dname, "agg": {"name": "PCGrad"}, "sseed": int(rng.integers(1 << 30))}


def _forced(desc, Jt, script):
    agg = aggs.make(desc, Jt.dtype)
    REC.start()
    REC.randperm_script = [list(p) for p in script]
    out, err, _ = call(agg, Jt)
    REC.stop()
    consumed = len(REC.randperm_draws)
    under = REC.script_underflow
    return out, err, consumed, under, [list(p) for p in REC.randperm_draws]


def check_pc_sched(case, ctx):
    dname = case["dtype"]
    Jt = to_t(np.array(case["J"], dtype=np.float64).reshape(len(case["J"]), -1), dname)
    J = as64(Jt)
    m, n = J.shape
    s = M.smax(J)
    if s == 0:
        ctx.not_judged("zero_matrix")
        return
    scheds = list(effective_schedules(m))
    all_of_them = True
    if m == 4 and ctx.tier == "quick":
        srng = np.random.default_rng(case["sseed"])
        scheds = [scheds[int(k)] for k in srng.choice(len(scheds), size=60, replace=False)]
        all_of_them = False
    tol = {"float64": 1e-12, "float32": 1e-5}[dname] * s * m
    distinct = []
    judged_any = False
    for sched in scheds:
        script = [[i] + list(sched[i]) for i in range(m)]  # row i first (skipped by the algorithm), then the forced order of the others
        out, err, consumed, under, draws = _forced(case["agg"], Jt, script)
        if err is not None:
            ctx.violation("aggregator_raised", case, {"error": repr(err)[:300], "schedule": script})
            break
        if consumed == 0:
            ctx.not_judged("pcgrad_randperm_recorder_not_hit")
            break
        ctx.count("randperm_recorder_hits")
        if under or draws != script:
            ctx.not_judged("pcgrad_script_not_consumed_as_scripted")
            break
        if E.guard({"name": "PCGrad"}, J, dname, orders=script):
            continue
        ref = R.pcgrad_with_orders(J, script)
        o = as64(out)
        ctx.count("pcgrad_schedules_forced")
        judged_any = True
        e = float(np.linalg.norm(o - ref))
        ctx.maximum(f"pcgrad_forced_schedule_{dname}", e / s)
        if e > tol:
            ctx.violation("pcgrad_differs_from_the_reference_for_the_forced_schedule", case, {"schedule": script, "output": o.tolist(), "reference": ref.tolist()})
            break
        if not any(np.linalg.norm(o - d) <= 1e-9 * s for d in distinct):
            distinct.append(o)
    if judged_any:
        if m == 3:
            ctx.count("pcgrad_distinct_outputs_m3", max(0, len(distinct) - 1))
        if m == 4 and all_of_them:
            ctx.count("pcgrad_m4_all_1296")
        ctx.klass(f"pcgrad_m={m}_distinct_outputs={len(distinct)}")
    if dname == "float32":
        ctx.count("w_float32")
    ctx.evaluated(fingerprint(case), nontrivial=M.has_conflict(J), n=max(1, len(scheds)))
    ctx.sample({"agg": "PCGrad (forced schedules)", "J": np.round(J, 4).tolist(), "schedules": len(scheds), "distinct_outputs": len(distinct)})


def gen_pc_free(rng, i):
    dname = "float32" if rng.random() < 0.2 else "float64"
    r = rng.random()
    if r < 0.2:
        J, klass = M.gen(rng, klass="nonconflicting", max_m=6, max_n=7)
    elif r < 0.7:
        J, klass = M.gen(rng, klass=["gaussian", "antiparallel", "lowrank", "rowscale"][int(rng.integers(4))], m=int(rng.integers(2, 5)), n=int(rng.integers(2, 7)))
    else:
        J, klass = M.gen(rng, klass=["gaussian", "antiparallel", "lowrank"][int(rng.integers(3))], m=int(rng.integers(5, 8)), n=int(rng.integers(2, 8)))
    return {"J": J.tolist(), "class": klass, "dtype": dname, "agg": {"name": "PCGrad"}, "seed": int(rng.integers(1 << 20))}


def check_pc_free(case, ctx):
    dname = case["dtype"]
    Jt = to_t(np.array(case["J"], dtype=np.float64).reshape(len(case["J"]), -1), dname)
    J = as64(Jt)
    m, n = J.shape
    s = M.smax(J)
    if s == 0:
        ctx.not_judged("zero_matrix")
        return
    out, rec = _out(case["agg"], Jt, ctx, case, seed=case["seed"])
    if out is None:
        ctx.evaluated()
        return
    tol = {"float64": 1e-10, "float32": 1e-4}[dname] * s * m
    G = J @ J.T
    rn = np.linalg.norm(J, axis=1)
    lim = {"float64": 1e-9, "float32": 1e-3}[dname] * np.outer(rn, rn)  # relative to the pair of rows (not to s^2: small rows conflict too)
    vio = None
    if ((G >= lim).all() and (rn > 0).all()) or m == 1:
        ctx.count("pcgrad_no_conflict_is_sum")
        if np.linalg.norm(out - J.sum(axis=0)) > tol:
            vio = ("pcgrad_without_conflict_is_not_the_sum", {"output": out.tolist(), "sum": J.sum(axis=0).tolist()})
    elif m <= 4:
        # recorder-free: membership in the finite candidate set (all projection orders)
        if (np.abs(G) < lim).any() or E.guard({"name": "PCGrad"}, J, dname, orders=None):
            ctx.not_judged("pcgrad_inner_product_near_zero")
        else:
            cand = [R.pcgrad_candidates_per_row(J, i) for i in range(m)]
            ctx.count("pcgrad_free_seed_in_candidate_set")
            if not R.in_minkowski_sum(out, cand, tol):
                vio = ("pcgrad_output_outside_the_candidate_set", {"output": out.tolist(), "candidates_per_row": [len(c) for c in cand]})
    else:
        orders = E.pcgrad_orders(rec, m)
        if orders is None:
            ctx.not_judged("pcgrad_randperm_recorder_not_hit")
        elif E.guard({"name": "PCGrad"}, J, dname, orders=orders):
            ctx.not_judged("pcgrad_inner_product_near_zero")
        else:
            ref = R.pcgrad_with_orders(J, orders)
            ctx.count("pcgrad_replayed_draws_m_gt_4")
            if np.linalg.norm(out - ref) > tol:
                vio = ("pcgrad_differs_from_the_reference_for_the_recorded_draws", {"orders": orders, "output": out.tolist(), "reference": ref.tolist()})
    if vio:
        ctx.violation(vio[0], case, vio[1])
    ctx.evaluated(fingerprint(case), nontrivial=M.has_conflict(J))


TABLE = {"mgda": (gen_mgda, check_mgda), "random": (gen_random, check_random), "cagrad": (gen_cagrad, check_cagrad), "graddrop": (gen_graddrop, check_graddrop),
         "pcgrad_sched": (gen_pc_sched, check_pc_sched), "pcgrad_free": (gen_pc_free, check_pc_free), "graddrop_freq": (gen_gd_freq, check_gd_freq)}


def run_shard(shard, ctx):
    gen, chk = TABLE[shard["kind"]]

    def gen2(r, i):
        c = gen(r, i)
        c["kind"] = shard["kind"]
        return c
    run_cases(ctx, shard_rng(ctx.seed, ID, ctx.shard_index), shard["n"], gen2, chk)


def replay(case, ctx):
    TABLE[case["kind"]][1](case, ctx)


def waivers(counters):
    w = set()
    if counters.get("randperm_recorder_hits", 0) == 0:  # permutations drawn through another torch entry point: candidate-set oracle decides
        w |= {"randperm_recorder_hits", "pcgrad_schedules_forced", "pcgrad_distinct_outputs_m3", "pcgrad_replayed_draws_m_gt_4", "pcgrad_m4_all_1296"}
    if counters.get("rand_recorder_hits", 0) == 0:  # candidate-pair oracle decides
        w |= {"rand_recorder_hits", "graddrop_draws_vs_purity_checked"}
    return w
