"""C12 — Default parameter discovery finds exactly the leaves that matter (DESIGN §4 C12)."""
from __future__ import annotations

import numpy as np
import torch

from .. import aggs, autojac as aj, programs as P
from ..core import fingerprint
from . import C01, C02
from ._common import run_cases, shard_rng, split_shards, tolist

ID = "C12"
LEVEL = "exploration"
RULE = ("random programs / trunk-heads programs (diamonds, leaves not requiring grad, detached sub-graphs, multi-output ops all/partly "
        "used, heads reaching the trunk AROUND the features through trunk leaves or trunk intermediate values incl. sibling outputs of "
        "the node that produced a feature) + deep chains (depth <= 200); the defaulted call on one graph vs the explicit call with the "
        "reference sets (behavioural: autograd.grad(...,allow_unused) is not None, on the twin / cut twin) on a twin graph: identical "
        ".grad on ALL leaves; overlapping default sets must be rejected without any write; non-trivial = some grad-requiring leaf is NOT "
        "in the default set or the default sets overlap; distinct = case sha1")
ASSUMPTIONS = ["reference default sets are behavioural (autograd reachability on twin / cut-twin graphs), cross-checked with the "
               "generator's symbolic dependency tracker"]
N = {"quick": (900, 1100, 24), "thorough": (360000, 432000, 6000)}
TOL = {"float64": 1e-12, "float32": 1e-5}


def shards(tier, seed):
    nb, nm, nd = N[tier]
    k = 6 if tier == "quick" else 14
    return split_shards("backward", nb, k) + split_shards("mtl", nm, k + 2) + split_shards("deep", nd, 2)


def requirements(tier):
    return {"backward_default_vs_explicit": 300, "mtl_default_vs_explicit": 200, "overlap_rejection_checked": 40,
            "w_leaf_excluded_from_default": 100, "w_non_grad_leaf": 100, "w_detached_subgraph": 30, "w_multi_output": 100,
            "w_around_without_overlap": 10, "w_feature_is_multi_output_sibling": 100, "w_deep_chain": 10, "w_diamond": 100,
            "w_around_through_trunk_value": 20, "w_heads_share_an_intermediate_tensor_without_overlap": 5}


def gen_backward(rng, i):
    dtype = "float32" if rng.random() < 0.1 else "float64"
    desc = P.gen_program(rng, dtype)
    m = sum(int(np.prod(s)) for s in C01._out_shapes(desc))
    rg = [j for j, l in enumerate(desc["leaves"]) if l["rg"]]
    r = rng.random()
    agg = ({"name": "Constant", "weights": aggs.random_weights(rng, m)} if r < 0.6 else {"name": "Sum"} if r < 0.8 else {"name": "UPGrad"})
    return {"program": desc, "m": m, "agg": agg, "chunk": [None, 1, 2][int(rng.integers(3))], "pregrad": [j for j in rg if rng.random() < 0.25],
            "pseed": int(rng.integers(1 << 30)), "retain": False}


def check_backward(case, ctx):
    from torchjd import backward
    desc = case["program"]
    dname = desc["dtype"]
    dtype = P.DT[dname]
    b, twin, probe = P.build(desc), P.build(desc), P.build(desc)
    rg = [j for j, l in enumerate(desc["leaves"]) if l["rg"]]
    reach = dict(zip(rg, P.reachable(probe.outputs, [probe.leaves[j] for j in rg])))
    ref = [j for j in rg if reach[j]]
    sym = set().union(*[set(desc["deps"][o]) for o in desc["outputs"]])
    if set(ref) != sym:
        ctx.inconclusive(f"harness self-check: symbolic deps {sorted(sym)} != behavioural {ref}")
        return
    C01._set_pregrads(b, case)
    C01._set_pregrads(twin, case)
    slim = C01._slim(case)
    try:
        backward(b.outputs, aggs.make(case["agg"], dtype), parallel_chunk_size=case["chunk"])
    except Exception as e:
        ctx.violation("defaulted_backward_raised", slim, {"error": repr(e)[:300]})
        ctx.evaluated()
        return
    backward(twin.outputs, aggs.make(case["agg"], dtype), inputs=[twin.leaves[j] for j in ref], parallel_chunk_size=case["chunk"])
    tol = TOL[dname] if case["agg"]["name"] != "UPGrad" else {"float64": 1e-7, "float32": 2e-3}[dname]
    vio = compare_all(b.leaves, twin.leaves, tol, ctx, f"backward_{dname}")
    if vio:
        vio[1]["reference_default_set"] = ref
        ctx.violation(vio[0], slim, vio[1])
    ctx.count("backward_default_vs_explicit")
    feats = P.program_features(desc)
    if len(ref) < len(rg):
        ctx.count("w_leaf_excluded_from_default")
    if feats["has_nonrg_leaf"]:
        ctx.count("w_non_grad_leaf")
    if feats["detach"]:
        ctx.count("w_detached_subgraph")
    if feats["multi_output"]:
        ctx.count("w_multi_output")
    if feats["reuse"]:
        ctx.count("w_diamond")
    ctx.evaluated(fingerprint(slim), nontrivial=len(ref) < len(rg))
    ctx.sample({"entry": "backward", "ops": [n["op"] for n in desc["nodes"]], "leaves": desc["leaves"], "reference_default_inputs": ref})


def compare_all(leaves1, leaves2, tol, ctx, label):
    for j, (l1, l2) in enumerate(zip(leaves1, leaves2)):
        g1, g2 = l1.grad, l2.grad
        if (g1 is None) != (g2 is None):
            return ("none_pattern_differs", {"leaf": j, "defaulted_has_grad": g1 is not None, "explicit_has_grad": g2 is not None})
        if g1 is None:
            continue
        scale = aj.max_abs(g2) + 1.0
        err = aj.max_abs(g1 - g2)
        ctx.maximum(f"default_vs_explicit_{label}", err / scale)
        if not err <= tol * scale:
            return ("default_differs_from_explicit", {"leaf": j, "defaulted": tolist(g1), "explicit": tolist(g2)})
    return None


def gen_sibling_program(rng, dtype):
    """A feature that is ONE output of a multi-output node (unbind / split) while a loss also uses ANOTHER output of the same
    node, in both operand orders and with branches of different depths (the traversal may meet either edge first)."""
    k = int(rng.integers(2, 4))
    shared = [{"shape": [k, int(rng.integers(1, 3))], "rg": True}]
    trunk, cur = [], 0
    for _ in range(int(rng.integers(0, 3))):
        trunk.append({"op": ["sin", "tanh", "mulc", "addc", "pyfunc"][int(rng.integers(5))], "args": [cur], "cseed": int(rng.integers(1 << 30))})
        cur = len(trunk)
    trunk.append({"op": "unbind" if rng.random() < 0.6 or k != 2 else "split", "args": [cur]})
    tup = len(trunk)
    n_out = k if trunk[-1]["op"] == "unbind" else 2
    picks = []
    for j in range(n_out):
        trunk.append({"op": "pick", "args": [tup], "i": j})
        picks.append(len(trunk))
    fi = int(rng.integers(n_out))
    si = int(rng.choice([j for j in range(n_out) if j != fi]))
    pool = [{"shape": [], "rg": True}, {"shape": [2], "rg": bool(rng.random() < 0.8)}]
    heads = []
    for h in range(int(rng.integers(1, 3))):
        use_sibling = h == 0 or rng.random() < 0.5
        base = 1 + 1 + (1 if use_sibling else 0)  # feature, one pool leaf, sibling value
        nodes, deps = [], []
        def chain(start, depth):
            c = start
            for _ in range(depth):
                nodes.append({"op": ["sin", "tanh", "square", "neg", "sigmoid"][int(rng.integers(5))], "args": [c]})
                c = base + len(nodes) - 1
            nodes.append({"op": "sumall", "args": [c]})
            return base + len(nodes) - 1
        a = chain(0, int(rng.integers(0, 4)))
        terms = [a]
        if use_sibling:
            how = ["chain", "both", "double_edge_only"][int(rng.integers(3))]
            if how != "double_edge_only":
                terms.append(chain(2, int(rng.integers(0, 4))))
            if how != "chain":
                # ONE node consuming the feature and its sibling directly (two edges to the same multi-output node), both orders
                nodes.append({"op": "mul", "args": [0, 2] if rng.random() < 0.5 else [2, 0]})
                nodes.append({"op": "sumall", "args": [base + len(nodes) - 1]})
                terms.append(base + len(nodes) - 1)
        nodes.append({"op": "sumall", "args": [1]})
        terms.append(base + len(nodes) - 1)
        order = list(rng.permutation(len(terms)))
        acc = terms[order[0]]
        for t in order[1:]:
            nodes.append({"op": "add", "args": [acc, terms[t]]})
            acc = base + len(nodes) - 1
        dep = [["f", 0], ["p", h % 2]] if pool[h % 2]["rg"] else [["f", 0]]
        if use_sibling:
            dep.append(["s", 0])
        heads.append({"features": [0], "leaves": [h % 2], "around": [], "around_values": [picks[si]] if use_sibling else [], "nodes": nodes, "loss": int(acc),
                      "deps": sorted(dep)})
    return {"dtype": dtype, "vseed": int(rng.integers(1 << 30)), "shared": shared, "trunk_nodes": trunk, "features": [picks[fi]],
            "feature_deps": [[["s", 0]]], "pool": pool, "heads": heads}


def gen_mtl(rng, i):
    dtype = "float32" if rng.random() < 0.1 else "float64"
    if i % 5 == 0:
        desc = gen_sibling_program(rng, dtype)
    else:
        desc = P.gen_mtl_program(rng, dtype, allow_around=bool(rng.random() < 0.5), allow_around_values=bool(rng.random() < 0.6))
    t = len(desc["heads"])
    srg = [i for i, l in enumerate(desc["shared"]) if l["rg"]]
    prg = [i for i, l in enumerate(desc["pool"]) if l["rg"]]
    mode = ["both", "both", "shared_only", "tasks_only"][int(rng.integers(4))]
    return {"program": desc, "agg": {"name": "Constant", "weights": aggs.random_weights(rng, t)}, "mode": mode,
            "chunk": [None, 1, 2][int(rng.integers(3))],
            "pregrad": {"s": [i for i in srg if rng.random() < 0.3], "p": [i for i in prg if rng.random() < 0.3]},
            "pseed": int(rng.integers(1 << 30))}


def _pregrads(b, case, dtype):
    prng = np.random.default_rng(case["pseed"])
    for kind, lst in (("s", b.shared), ("p", b.pool)):
        for i in case["pregrad"][kind]:
            lst[i].grad = torch.tensor(prng.standard_normal(tuple(lst[i].shape)), dtype=torch.float64).to(dtype)


def check_mtl(case, ctx):
    from torchjd import mtl_backward
    desc = case["program"]
    dname = desc["dtype"]
    dtype = P.DT[dname]
    b, twin, probe, cut = P.build_mtl(desc), P.build_mtl(desc), P.build_mtl(desc), P.build_mtl(desc, cut=True)
    dshared, dtasks = C02.default_lists(desc, probe, cut)
    # symbolic cross-check of the reference sets
    sym_shared = set()
    for fd in desc["feature_deps"]:
        sym_shared |= {tuple(d) for d in fd if d[0] == "s"}
    if {tuple(r) for r in dshared} != sym_shared:
        ctx.inconclusive(f"harness self-check: shared default symbolic {sorted(sym_shared)} != behavioural {dshared}")
        return
    for h, refs in zip(desc["heads"], dtasks):
        sym = {tuple(d) for d in h["deps"] if d[0] in ("s", "p")}
        if {tuple(r) for r in refs} != sym:
            ctx.inconclusive(f"harness self-check: task default symbolic {sorted(sym)} != behavioural {refs}")
            return
    slim = {**case, "program": C02._slim({"program": desc})["program"]}
    srg = [["s", i] for i, l in enumerate(desc["shared"]) if l["rg"]]
    # which lists are defaulted; the explicit ones take the reference sets, so both calls request the same parameters
    use_default_shared = case["mode"] in ("both", "shared_only")
    use_default_tasks = case["mode"] in ("both", "tasks_only")
    sset = {tuple(r) for r in dshared}
    overlap = sorted({tuple(r) for refs in dtasks for r in refs} & sset)
    _pregrads(b, case, dtype)
    _pregrads(twin, case, dtype)
    all1 = b.shared + b.pool
    # default discovery must not depend on what was discovered on the SAME retained graph before, with other arguments: in half of
    # the cases a backward(losses) with default inputs (no feature excluded) comes first; in the other half it comes after
    from torchjd import backward
    all2 = twin.shared + twin.pool
    rg_idx = [k for k, x in enumerate(probe.shared + probe.pool) if x.requires_grad]
    reach_rg = P.reachable(probe.losses, [(probe.shared + probe.pool)[k] for k in rg_idx]) if rg_idx else []
    reach_idx = [k for k, r in zip(rg_idx, reach_rg) if r]
    bw_first = bool(case.get("pseed", 0) & 1)

    def mixed_backward():
        backward(b.losses, aggs.make(case["agg"], dtype), retain_graph=True)
        backward(twin.losses, aggs.make(case["agg"], dtype), inputs=[all2[k] for k in reach_idx], retain_graph=True)
        ctx.count("w_backward_and_mtl_backward_defaults_on_one_graph")

    if bw_first:
        try:
            mixed_backward()
        except Exception as e:
            ctx.violation("defaulted_backward_raised", {**case, "program": C02._slim({"program": desc})["program"]}, {"error": repr(e)[:300], "order": "backward first"})
            return
    before = aj.snap(all1)
    kwargs = {}
    if not use_default_shared:
        kwargs["shared_params"] = [C02.leaf_of(b, r) for r in dshared]
    if not use_default_tasks:
        kwargs["tasks_params"] = [[C02.leaf_of(b, r) for r in refs] for refs in dtasks]
    agg = aggs.make(case["agg"], dtype)
    around_value = any(h.get("around_values") for h in desc["heads"])
    sibling = _feature_is_sibling(desc)
    detail_common = {"reference_shared": dshared, "reference_tasks": dtasks, "overlap": [list(o) for o in overlap], "mode": case["mode"],
                     "around_through_trunk_value": around_value, "feature_is_multi_output_sibling": sibling}
    err = None
    try:
        mtl_backward(b.losses, list(b.features), agg, retain_graph=True, parallel_chunk_size=case["chunk"], **kwargs)
    except Exception as e:
        err = e
    vio = None
    if overlap:
        ctx.count("overlap_rejection_checked")
        if err is None:
            vio = ("overlapping_default_sets_not_rejected", dict(detail_common))
        else:
            bad = aj.grads_untouched(all1, before)
            if bad:
                vio = ("rejected_call_modified_grad", {**detail_common, "leaves": bad, "error": repr(err)[:200]})
    else:
        if err is not None:
            vio = ("defaulted_mtl_backward_raised", {**detail_common, "error": repr(err)[:300]})
        else:
            mtl_backward(twin.losses, list(twin.features), aggs.make(case["agg"], dtype), retain_graph=True, parallel_chunk_size=case["chunk"],
                         shared_params=[C02.leaf_of(twin, r) for r in dshared], tasks_params=[[C02.leaf_of(twin, r) for r in refs] for refs in dtasks])
            v = compare_all(all1, twin.shared + twin.pool, TOL[dname], ctx, f"mtl_{dname}")
            if v:
                vio = (v[0], {**v[1], **detail_common, "backward_with_defaults_came_first": bw_first})
            ctx.count("mtl_default_vs_explicit")
            if vio is None and not bw_first:
                try:
                    mixed_backward()
                    v = compare_all(all1, twin.shared + twin.pool, TOL[dname], ctx, f"mtl_then_backward_{dname}")
                    if v:
                        vio = ("backward_defaults_after_mtl_backward:" + v[0], {**v[1], **detail_common})
                except Exception as e:
                    vio = ("defaulted_backward_raised", {**detail_common, "error": repr(e)[:300], "order": "after mtl_backward"})
    if vio:
        ctx.violation(vio[0], slim, vio[1])
    allrg = len(srg) + sum(1 for l in desc["pool"] if l["rg"])
    requested = sset | {tuple(r) for refs in dtasks for r in refs}
    if len(requested) < allrg:
        ctx.count("w_leaf_excluded_from_default")
    if any(not l["rg"] for l in desc["shared"] + desc["pool"]):
        ctx.count("w_non_grad_leaf")
    if any(h["around"] or h.get("around_values") for h in desc["heads"]) and not overlap:
        ctx.count("w_around_without_overlap")
    if around_value:
        ctx.count("w_around_through_trunk_value")
    avs = [v for h in desc["heads"] for v in h.get("around_values", [])]
    if len(avs) != len(set(avs)) and not overlap:
        ctx.count("w_heads_share_an_intermediate_tensor_without_overlap")
    if sibling:
        ctx.count("w_feature_is_multi_output_sibling")
    ops = {n["op"] for n in desc["trunk_nodes"]} | {n["op"] for h in desc["heads"] for n in h["nodes"]}
    if ops & {"unbind", "split"}:
        ctx.count("w_multi_output")
    if "detach" in ops:
        ctx.count("w_detached_subgraph")
    ctx.klass(f"mtl/{case['mode']}/{'overlap' if overlap else 'disjoint'}")
    ctx.evaluated(fingerprint(slim), nontrivial=bool(overlap) or len(requested) < allrg)
    ctx.sample({"entry": "mtl_backward", "mode": case["mode"], "reference_shared": dshared, "reference_tasks": dtasks, "overlap": [list(o) for o in overlap],
                "heads_around": [[h["around"], h.get("around_values", [])] for h in desc["heads"]]})


def _feature_is_sibling(desc):
    """A feature is an output of a multi-output node and some head takes another output of that node around the features."""
    ns = len(desc["shared"])
    def node(i):
        return desc["trunk_nodes"][i - ns] if i >= ns else None
    fparents = set()
    for f in desc["features"]:
        n = node(f)
        if n and n["op"] == "pick":
            fparents.add(n["args"][0])
    for h in desc["heads"]:
        for v in h.get("around_values", []):
            n = node(v)
            if n and n["op"] == "pick" and n["args"][0] in fparents:
                return True
    return False


def gen_deep(rng, i):
    depth = int(rng.integers(50, 201))
    ops = ["sin", "tanh", "addc", "scale", "sigmoid", "softplus", "pyfunc"]
    nodes, cur = [], 0
    leaves = [{"shape": [2], "rg": True}, {"shape": [2], "rg": True}, {"shape": [2], "rg": bool(rng.random() < 0.5)}]
    for d in range(depth):
        op = ops[int(rng.integers(len(ops)))]
        n = {"op": op, "args": [cur]}
        if op == "scale":
            n["c"] = 0.9
        if op == "addc":
            n["cseed"] = int(rng.integers(1 << 30))
        nodes.append(n)
        cur = 3 + d
        if d == depth // 2:  # a second leaf joins half-way
            nodes.append({"op": "add", "args": [cur, 1]})
            cur += 1
            depth += 0
            # keep numbering consistent
            ops = ops
            break_at = d
            # continue the chain from the joined value
            for d2 in range(d + 1, depth):
                op = ops[int(rng.integers(len(ops)))]
                n = {"op": op, "args": [cur]}
                if op == "scale":
                    n["c"] = 0.9
                if op == "addc":
                    n["cseed"] = int(rng.integers(1 << 30))
                nodes.append(n)
                cur += 1
            break
    deps = [[0], [1], [2] if leaves[2]["rg"] else []]
    dep = {0}
    for n in nodes:
        for a in n["args"]:
            if a < 3:
                dep |= set(deps[a])
        deps.append(sorted(dep))
    desc = {"dtype": "float64", "vseed": int(rng.integers(1 << 30)), "leaves": leaves, "nodes": nodes, "outputs": [cur], "deps": deps}
    return {"program": desc, "m": 2, "agg": {"name": "Constant", "weights": [1.0, -0.5]}, "chunk": None, "pregrad": [], "pseed": 0, "retain": False,
            "deep": len(nodes)}


def check_deep(case, ctx):
    check_backward(case, ctx)
    ctx.count("w_deep_chain")


def run_shard(shard, ctx):
    rng = shard_rng(ctx.seed, ID, ctx.shard_index)
    if shard["kind"] == "backward":
        run_cases(ctx, rng, shard["n"], gen_backward, check_backward)
    elif shard["kind"] == "mtl":
        run_cases(ctx, rng, shard["n"], gen_mtl, check_mtl)
    else:
        run_cases(ctx, rng, shard["n"], gen_deep, check_deep)


def replay(case, ctx):
    (check_mtl if "heads" in case["program"] else check_backward)(case, ctx)


def sibling_output_around_feature(v):
    """F6: the loss reaches the trunk through ANOTHER output of the multi-output node that produced a feature."""
    return (v["kind"] in ("overlapping_default_sets_not_rejected", "none_pattern_differs", "default_differs_from_explicit")
            and v["detail"].get("feature_is_multi_output_sibling") is True)


CLASSIFIERS = {"sibling_output_around_feature": sibling_output_around_feature}
