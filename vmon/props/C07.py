"""C07 — parallel_chunk_size is a pure performance knob (DESIGN §4 C07).

Deciding events: tensor hooks (one firing per backward sweep through the tensor; the argument tells whether the sweep is
batched and how many rows it carries).  Corroborating events: recorders on torch.autograd.grad and torch.vmap.
"""
from __future__ import annotations

import math

import numpy as np
import torch

from .. import aggs, autojac as aj, programs as P
from ..boundary import REC
from ..core import fingerprint
from ._common import run_cases, shard_rng, split_shards, tolist

ID = "C07"
LEVEL = "exploration"
RULE = ("ALL (m, k) pairs with m <= 12 rows and k in {None, 1..m+2} (114 pairs, exhaustive) x retain_graph both ways x >= 3 random "
        "programs per pair x {backward, mtl_backward (m = number of tasks)}, plus m in {65, 100, 129, 257} x k in {None, 1, 2, 63, 64, 65, m-1, m, m+2} "
        "(backward), plus random programs and a vmap-hostile workload (custom "
        "autograd.Function whose backward calls .item()); non-trivial = m >= 2 and 1 < k < m (several batched sweeps); distinct = "
        "(entry, m, k, retain, program) sha1")
EXHAUSTIVE_NOTE = {"quick": "the (m,k) grid m<=12, k in {None,1..m+2} is enumerated completely (3 programs per pair and entry point)",
                   "thorough": "the (m,k) grid m<=12, k in {None,1..m+2} is enumerated completely (400 programs per pair and entry point)"}
ASSUMPTIONS = ["a tensor hook fires once per backward sweep that reaches the tensor (torch semantics)"]
PER_PAIR = {"quick": 3, "thorough": 400}
F = torch._C._functorch


def exhaustive(tier):
    return True


def grid():
    return [(m, k) for m in range(1, 13) for k in [None] + list(range(1, m + 3))]


def shards(tier, seed):
    g = grid()
    out = []
    n = 8 if tier == "quick" else 16
    for entry in ("backward", "mtl"):
        for i in range(n):
            out.append({"kind": "grid", "entry": entry, "pairs": g[i::n], "per_pair": PER_PAIR[tier]})
    out += split_shards("hostile", 160 if tier == "quick" else 12000, 2 if tier == "quick" else 8)
    # more rows than any plausible internal cap (64, 128, 256 ...): the default None must still mean ONE sweep
    big = [(m, k) for m in (65, 100, 129, 257) for k in (None, 1, 2, 63, 64, 65, m - 1, m, m + 2)]
    nb = 4 if tier == "quick" else 8
    for i in range(nb):
        out.append({"kind": "large", "pairs": big[i::nb], "per_pair": 1 if tier == "quick" else 30})
    # 4.2 million parameter values x 17 .. 24 rows (more than 2^26 Jacobian entries in one sweep when k is None)
    huge = [(17, None), (20, 18)] if tier == "quick" else [(17, None), (20, None), (24, None), (20, 18), (20, 20), (24, 17), (17, 16), (20, 1)]
    for pr in huge:
        out.append({"kind": "huge", "pairs": [pr]})
    return out


def requirements(tier):
    return {"grid_pairs_backward": 114, "grid_pairs_mtl": 114, "sweep_count_checked": 1000, "rows_per_sweep_checked": 1000,
            "sequential_no_batched_checked": 40, "values_equal_k1_checked": 500, "head_swept_once_checked": 300,
            "hostile_k1_succeeded": 30, "hostile_single_row_succeeded": 5, "w_several_batched_sweeps": 100, "w_k_larger_than_m": 100,
            "w_retain_false": 200, "w_retain_true": 200, "large_pairs_backward": 36, "w_model_sized_parameter": 2, "w_batched_sweep_through_python_autograd_function": 8, "w_more_than_64_rows_default_chunk": 4, "vmap_recorder_hits": 1, "grad_recorder_hits": 1}


def info(g):
    if g is None:  # undefined gradient of an unused output of a multi-output node: the sweep still passed here
        return ("N", None)
    if F.is_batchedtensor(g):
        try:
            return ("B", int(F.get_unwrapped(g).shape[F.maybe_get_bdim(g)]))
        except Exception:
            return ("B", None)
    return ("S", 1)


class Hooks:
    def __init__(self):
        self.log = {}
        self.handles = []

    def add(self, name, t):
        if not (isinstance(t, torch.Tensor) and t.requires_grad):
            return
        self.log[name] = []
        # an undefined (None) gradient means no gradient reached this tensor in that sweep (sibling output of a
        # multi-output node): not a sweep through it
        self.handles.append(t.register_hook(lambda g, n=name: self.log[n].append(info(g)) if g is not None else None))

    def remove(self):
        for h in self.handles:
            h.remove()


def expected_sweeps(m, k):
    kk = m if k is None else min(k, m)
    return math.ceil(m / kk), kk


def judge_sweeps(log, names_exact, names_optional, m, k, ctx):
    """names_exact must fire exactly ceil(m/k') times; names_optional either never or exactly that often."""
    S, kk = expected_sweeps(m, k)
    for name in names_exact + names_optional:
        ev = log.get(name, [])
        if name in names_optional and not ev:
            continue
        if len(ev) != S:
            return ("wrong_number_of_sweeps", {"tensor": name, "sweeps": len(ev), "expected": S, "events": ev[:20], "m": m, "k": k})
        ctx.count("sweep_count_checked")
        rows = [e[1] for e in ev]
        if all(r is not None for r in rows):
            if max(rows) > kk or sum(rows) != m:
                return ("wrong_rows_per_sweep", {"tensor": name, "rows": rows, "m": m, "k": k})
            ctx.count("rows_per_sweep_checked")
        if (k == 1 or m == 1) and any(e[0] == "B" for e in ev):
            return ("batched_sweep_although_sequential", {"tensor": name, "events": ev[:20], "m": m, "k": k})
    return None


def run_backward(desc, k, retain, hooks=True):
    from torchjd import backward
    b = P.build(desc)
    h = Hooks()
    rg = [j for j, l in enumerate(desc["leaves"]) if l["rg"]]
    if hooks:
        for j in rg:
            h.add(f"leaf{j}", b.leaves[j])
        nl = len(b.leaves)
        for i, v in enumerate(b.values[nl:]):
            if not isinstance(v, tuple) and not v.is_leaf:
                h.add(f"v{i + nl}", v)
    m = sum(o.numel() for o in b.outputs)
    w = [0.3 + 0.1 * i * (-1) ** i for i in range(m)]
    REC.start()
    err = None
    try:
        backward(b.outputs, aggs.make({"name": "Constant", "weights": w}, P.DT[desc["dtype"]]), inputs=[b.leaves[j] for j in rg],
                 retain_graph=retain, parallel_chunk_size=k)
    except Exception as e:
        err = e
    REC.stop()
    h.remove()
    return b, h.log, err, {"vmap": list(REC.vmap_events), "grad": list(REC.grad_events)}


def check_backward(case, ctx):
    desc, m, k, retain = case["program"], case["m"], case["k"], case["retain"]
    b, log, err, rec = run_backward(desc, k, retain)
    slim = {**case, "program": dict(desc)}  # (deps kept: the replay needs them)
    if err is not None:
        ctx.violation("backward_raised", slim, {"error": repr(err)[:300], "m": m, "k": k, "retain_graph": retain})
        ctx.evaluated()
        return
    rg = [j for j, l in enumerate(desc["leaves"]) if l["rg"]]
    sym = set().union(*[set(desc["deps"][o]) for o in desc["outputs"]])
    exact = [f"leaf{j}" for j in rg if j in sym]
    optional = [n for n in log if n not in exact]
    vio = judge_sweeps(log, exact, optional, m, k, ctx)
    # recorders (corroboration + the literal "never relies on vmap")
    ctx.count("vmap_recorder_hits", len(rec["vmap"]))
    ctx.count("grad_recorder_hits", len(rec["grad"]))
    if vio is None and (k == 1 or m == 1):
        ctx.count("sequential_no_batched_checked")
        if rec["vmap"] or any(e["is_grads_batched"] or e["batched_cotangents"] for e in rec["grad"]):
            vio = ("vmap_used_although_sequential", {"m": m, "k": k, "vmap_events": rec["vmap"][:5], "grad_events": rec["grad"][:5]})
    if vio is None and rec["grad"]:
        S, _ = expected_sweeps(m, k)
        if len(rec["grad"]) == S:
            ctx.count("obs_grad_calls_equal_sweeps")
        else:
            ctx.count("obs_grad_calls_differ_from_sweeps")
    # values: equal to the k = 1 result
    if vio is None:
        b1, _, err1, _ = run_backward(desc, 1, True, hooks=False)
        if err1 is not None:
            vio = ("backward_raised", {"error": repr(err1)[:300], "m": m, "k": 1, "retain_graph": True})
        else:
            for j in rg:
                g, g1 = b.leaves[j].grad, b1.leaves[j].grad
                scale = aj.max_abs(g1) + 1.0
                e = aj.max_abs(g - g1)
                ctx.maximum(f"vs_k1_{desc['dtype']}", e / scale)
                if not e <= {"float64": 1e-12, "float32": 1e-5}[desc["dtype"]] * scale:
                    vio = ("value_depends_on_chunk_size", {"leaf": j, "k": k, "grad": tolist(g), "grad_k1": tolist(g1)})
                    break
            ctx.count("values_equal_k1_checked")
    if vio:
        ctx.violation(vio[0], slim, vio[1])
    _witness(ctx, m, k, retain)
    if m >= 2 and k != 1 and any(n["op"] == "pyfunc" for n in desc["nodes"]):
        ctx.count("w_batched_sweep_through_python_autograd_function")
    ctx.evaluated(fingerprint(slim), nontrivial=m >= 2 and k is not None and 1 < k < m)
    ctx.sample({"entry": "backward", "m": m, "k": k, "retain_graph": retain, "ops": [n["op"] for n in desc["nodes"]],
                "hook_events": {n: ev for n, ev in list(log.items())[:3]}})


def _witness(ctx, m, k, retain):
    if k is not None and 1 < k < m and math.ceil(m / k) >= 2:
        ctx.count("w_several_batched_sweeps")
    if k is not None and k > m:
        ctx.count("w_k_larger_than_m")
    if k is None and m > 64:
        ctx.count("w_more_than_64_rows_default_chunk")
    ctx.count("w_retain_true" if retain else "w_retain_false")


def run_mtl(desc, k, retain, hooks=True):
    from torchjd import mtl_backward
    b = P.build_mtl(desc)
    h = Hooks()
    if hooks:
        for j, l in enumerate(b.shared):
            h.add(f"shared{j}", l)
        ns = len(b.shared)
        fids = {id(f) for f in b.features}
        for i, v in enumerate(b.trunk_values[ns:]):
            if not isinstance(v, tuple) and id(v) not in fids:
                h.add(f"trunk{i + ns}", v)
        for i, f in enumerate(b.features):
            h.add(f"feat{i}", f)
        for hi, vals in enumerate(b.head_values):
            base = len(desc["heads"][hi]["features"]) + len(desc["heads"][hi]["leaves"]) + len(desc["heads"][hi]["around"]) + len(desc["heads"][hi].get("around_values", []))
            for i, v in enumerate(vals[base:]):
                if not isinstance(v, tuple) and v is not b.losses[hi]:
                    h.add(f"head{hi}.v{i}", v)
            h.add(f"loss{hi}", b.losses[hi])
    t = len(b.losses)
    w = [0.3 + 0.1 * i * (-1) ** i for i in range(t)]
    REC.start()
    err = None
    try:
        mtl_backward(b.losses, list(b.features), aggs.make({"name": "Constant", "weights": w}, P.DT[desc["dtype"]]),
                     retain_graph=retain, parallel_chunk_size=k)
    except Exception as e:
        err = e
    REC.stop()
    h.remove()
    return b, h.log, err, {"vmap": list(REC.vmap_events), "grad": list(REC.grad_events)}


def check_mtl(case, ctx):
    desc, k, retain = case["program"], case["k"], case["retain"]
    t = len(desc["heads"])
    b, log, err, rec = run_mtl(desc, k, retain)
    from . import C02
    slim = {**case, "program": dict(desc)}  # (deps kept: the replay needs them)
    chained = P.feature_nodes_chained(b.features)
    if err is not None:
        ctx.violation("mtl_backward_raised", slim, {"error": repr(err)[:300], "m": t, "k": k, "retain_graph": retain, "features_chained": chained})
        ctx.evaluated()
        return
    srg = [j for j, l in enumerate(desc["shared"]) if l["rg"]]
    fdeps = set()
    for fd in desc["feature_deps"]:
        fdeps |= {d[1] for d in fd}
    exact = [f"shared{j}" for j in srg if j in fdeps]
    optional = [n for n in log if n.startswith("trunk")]
    vio = None
    if chained:
        # the task-level differentiation legitimately runs through trunk nodes between chained features: sweep counts
        # of the trunk are not well-defined by the statement there
        ctx.not_judged("chained_features_sweep_count")
    else:
        vio = judge_sweeps(log, exact, optional, t, k, ctx)
    # features: one firing per task whose loss reaches the feature (scalar sweeps of the heads) + the trunk sweeps
    S, kk = expected_sweeps(t, k)
    if vio is None and not chained:
        for i in range(len(desc["features"])):
            n_tasks = sum(1 for h in desc["heads"] if ["f", i] in h["deps"])
            ev = log.get(f"feat{i}", [])
            if len(ev) != n_tasks + S:
                vio = ("feature_sweeps", {"feature": i, "events": ev[:20], "expected_task_sweeps": n_tasks, "expected_trunk_sweeps": S})
                break
    # head graphs swept exactly once each
    if vio is None:
        for hi in range(t):
            ev = log.get(f"loss{hi}", [])
            if len(ev) != 1:
                vio = ("head_not_swept_exactly_once", {"head": hi, "loss_events": ev[:10]})
                break
            for n, e in log.items():
                if n.startswith(f"head{hi}.") and len(e) > 1:
                    vio = ("head_not_swept_exactly_once", {"head": hi, "tensor": n, "events": e[:10]})
                    break
            if vio:
                break
            ctx.count("head_swept_once_checked")
    ctx.count("vmap_recorder_hits", len(rec["vmap"]))
    ctx.count("grad_recorder_hits", len(rec["grad"]))
    if vio is None and (k == 1 or t == 1):
        ctx.count("sequential_no_batched_checked")
        anyB = any(e[0] == "B" for ev in log.values() for e in ev)
        if anyB or rec["vmap"] or any(e["is_grads_batched"] or e["batched_cotangents"] for e in rec["grad"]):
            vio = ("vmap_used_although_sequential", {"m": t, "k": k, "vmap_events": rec["vmap"][:5]})
    if vio is None:
        b1, _, err1, _ = run_mtl(desc, 1, True, hooks=False)
        if err1 is not None:
            vio = ("mtl_backward_raised", {"error": repr(err1)[:300], "k": 1, "retain_graph": True, "features_chained": chained})
        else:
            for l, l1 in zip(b.shared + b.pool, b1.shared + b1.pool):
                if (l.grad is None) != (l1.grad is None):
                    vio = ("none_pattern_depends_on_chunk_size", {"k": k})
                    break
                if l.grad is None:
                    continue
                scale = aj.max_abs(l1.grad) + 1.0
                e = aj.max_abs(l.grad - l1.grad)
                ctx.maximum(f"mtl_vs_k1_{desc['dtype']}", e / scale)
                if not e <= {"float64": 1e-12, "float32": 1e-5}[desc["dtype"]] * scale:
                    vio = ("value_depends_on_chunk_size", {"k": k, "grad": tolist(l.grad), "grad_k1": tolist(l1.grad)})
                    break
            ctx.count("values_equal_k1_checked")
    if vio:
        ctx.violation(vio[0], slim, vio[1])
    _witness(ctx, t, k, retain)
    if t >= 2 and k != 1 and any(n["op"] == "pyfunc" for n in desc.get("trunk_nodes", [])):
        ctx.count("w_batched_sweep_through_python_autograd_function")
    ctx.evaluated(fingerprint(slim), nontrivial=t >= 2 and k is not None and 1 < k < t)
    ctx.sample({"entry": "mtl_backward", "tasks": t, "k": k, "retain_graph": retain,
                "hook_events": {n: ev for n, ev in log.items() if n.startswith(("shared", "feat", "loss"))}})


def check_hostile(case, ctx):
    desc, m, k = case["program"], case["m"], case["k"]
    b, log, err, rec = run_backward(desc, k, False)
    slim = {**case, "program": dict(desc)}
    if k == 1 or m == 1:
        if err is not None:
            ctx.violation("sequential_differentiation_failed_on_vmap_hostile_graph", slim, {"error": repr(err)[:300], "m": m, "k": k})
        else:
            # value against plain autograd on a twin
            twin = P.build(desc)
            rg = [j for j, l in enumerate(desc["leaves"]) if l["rg"]]
            w = [0.3 + 0.1 * i * (-1) ** i for i in range(m)]
            gts, off = [], 0
            for o in twin.outputs:
                gts.append(torch.tensor(w[off:off + o.numel()], dtype=o.dtype).reshape(o.shape))
                off += o.numel()
            torch.autograd.backward(twin.outputs, grad_tensors=gts, inputs=[twin.leaves[j] for j in rg])
            bad = None
            for j in rg:
                g2 = twin.leaves[j].grad if twin.leaves[j].grad is not None else torch.zeros_like(twin.leaves[j])
                if aj.max_abs(b.leaves[j].grad - g2) > 1e-10 * (aj.max_abs(g2) + 1):
                    bad = j
            if bad is not None:
                ctx.violation("wrong_value_on_vmap_hostile_graph", slim, {"leaf": bad})
            ctx.count("hostile_k1_succeeded" if k == 1 else "hostile_single_row_succeeded")
            if m == 1 and k == 1:
                ctx.count("hostile_single_row_succeeded")
    else:
        ctx.count("obs_hostile_batched_raised" if err is not None else "obs_hostile_batched_succeeded")
    ctx.evaluated(fingerprint(slim), nontrivial=m >= 2 and k == 1)


def check_huge(case, ctx):
    """A model-sized parameter (4.2 million values in one tensor): the number of sweeps must depend on (rows, chunk size) only,
    never on the number of parameters (no hidden memory budget overriding parallel_chunk_size)."""
    from torchjd import backward
    m, k, n = case["m"], case["k"], case["n"]
    w = torch.full((n,), 0.5, dtype=torch.float32, requires_grad=True)
    h = (w * w).sum()
    y = torch.arange(1, m + 1, dtype=torch.float32) * h
    hk = Hooks()
    hk.add("h", h)
    err = None
    try:
        backward(y, aggs.make({"name": "Mean"}, torch.float32), inputs=[w], parallel_chunk_size=k)
    except Exception as e:
        err = e
    hk.remove()
    if err is not None:
        ctx.violation("backward_raised", case, {"error": repr(err)[:300]})
    else:
        vio = judge_sweeps(hk.log, ["h"], [], m, k, ctx)
        if vio is None:
            exp = float(np.mean(np.arange(1, m + 1))) * 2 * 0.5
            if not bool(((w.grad - exp).abs() <= 1e-4 * exp).all()):
                vio = ("value_depends_on_chunk_size", {"expected_every_entry": exp, "got_first_entries": w.grad[:4].tolist()})
        if vio:
            ctx.violation(vio[0], case, vio[1])
    ctx.count("w_model_sized_parameter")
    _witness(ctx, m, k, False)
    ctx.evaluated(fingerprint(case), nontrivial=True)
    ctx.sample({"entry": "backward", "m": m, "k": k, "parameter_values": n, "hook_events": {"h": hk.log.get("h", [])[:6]}})


def run_shard(shard, ctx):
    rng = shard_rng(ctx.seed, ID, ctx.shard_index)
    if shard["kind"] == "huge":
        for m, k in shard["pairs"]:
            run_cases(ctx, rng, 1, lambda r, i: {"huge": True, "m": m, "k": k, "n": 2 ** 22}, check_huge)
        return
    if shard["kind"] == "grid":
        for m, k in shard["pairs"]:
            for rep in range(shard["per_pair"]):
                retain = bool(rep % 2) if shard["per_pair"] > 1 else bool(rng.random() < 0.5)
                dtype = "float32" if rep % 5 == 4 else "float64"
                if shard["entry"] == "backward":
                    def gen(r, i):
                        return {"program": P.with_rows(P.gen_program(r, dtype), m, r), "m": m, "k": k, "retain": retain}
                    run_cases(ctx, rng, 1, gen, check_backward)
                else:
                    def gen(r, i):
                        return {"program": P.gen_mtl_program(r, dtype, n_heads=m), "m": m, "k": k, "retain": retain}
                    run_cases(ctx, rng, 1, gen, check_mtl)
            ctx.count(f"grid_pairs_{shard['entry']}")
    elif shard["kind"] == "large":
        for m, k in shard["pairs"]:
            for rep in range(shard["per_pair"]):
                def gen(r, i):
                    return {"program": P.with_rows(P.gen_program(r, "float64"), m, r), "m": m, "k": k, "retain": bool(rep % 2)}
                run_cases(ctx, rng, 1, gen, check_backward)
            ctx.count("large_pairs_backward")
    elif shard["kind"] == "hostile":
        def gen(r, i):
            m = int(r.integers(1, 7)) if i % 6 else 1
            k = [1, 1, None, 2, m + 1][int(r.integers(5))]
            return {"program": P.with_rows(P.gen_program(r, "float64"), m, r, hostile=True), "m": m, "k": k}
        run_cases(ctx, rng, shard["n"], gen, check_hostile)


def replay(case, ctx):
    if case.get("huge"):
        return check_huge(case, ctx)
    if "heads" in case["program"]:
        check_mtl(case, ctx)
    elif any(n["op"] == "hostile" for n in case["program"]["nodes"]):
        check_hostile(case, ctx)
    else:
        check_backward(case, ctx)


def _chained(v):
    from .C02 import chained_features_freed
    return chained_features_freed(v)


CLASSIFIERS = {"chained_features_freed": _chained}


def waivers(counters):
    # the tensor hooks decide; the recorders on torch.vmap / torch.autograd.grad only corroborate
    return {k for k in ("vmap_recorder_hits", "grad_recorder_hits") if counters.get(k, 0) == 0}
