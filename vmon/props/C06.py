"""C06 — Gradients accumulate; nothing but the requested .grad fields is touched (DESIGN §4 C06).

History + shadow model.  Three retained graphs over the SAME leaves (one for backward, one trunk/heads for mtl_backward,
one driven by torch.autograd.backward); random histories of calls and user edits of .grad; after every step the .grad of
every leaf must equal a 10-line sequential shadow store, every other tensor must be bit-identical with unchanged
_version, and no .grad may share storage with anything else.
"""
from __future__ import annotations

import warnings

import numpy as np
import torch

from .. import aggs, autojac as aj, programs as P
from ..core import fingerprint
from . import C02, C20
from ._common import run_cases, shard_rng, split_shards, tolist

ID = "C06"
LEVEL = "exploration"
RULE = ("random histories (<= 8 steps quick, <= 20 thorough) over {backward, mtl_backward, torch.autograd.backward, grad.zero_(), "
        "grad=None, in-place edit, grad=fresh tensor, k-fold repetition of the previous torchjd call} on three retained graphs over "
        "common leaves; non-trivial = the history contains create-then-accumulate on some leaf; distinct = history sha1")
ASSUMPTIONS = ["graphs without retain_grad() tensors", "aggregator outputs observed through a recording proxy (shadow model adds the "
               "very slice that was returned)"]
N = {"quick": 480, "thorough": 144000}
LEN = {"quick": 8, "thorough": 20}
DETERMINISTIC = ["Constant", "Mean", "Sum", "UPGrad", "DualProj", "TrimmedMean", "Krum", "MGDA", "IMTLG", "AlignedMTL", "ConFIG"]


def shards(tier, seed):
    return split_shards("history", N[tier], 16 if tier == "quick" else 32) + split_shards("shared_grad_buffer", 96 if tier == "quick" else 30000, 2 if tier == "quick" else 8) \
        + split_shards("reduced_precision", 120 if tier == "quick" else 20000, 2 if tier == "quick" else 8)


def requirements(tier):
    return {"steps_checked": 800, "shadow_bitwise_checked": 1000, "task_param_checked": 250, "alias_checked": 300, "w_grad_recreated_while_caller_holds_the_previous_one": 25,
            "values_unchanged_checked": 400, "repeat_bitwise": 100, "w_create_then_accumulate": 100, "w_accumulate_onto_edited": 80,
            "w_none_after_non_none": 30, "w_mtl_and_bw_on_common_leaf": 60, "w_autograd_interleaved": 80, "w_fresh_created": 300, "w_non_contiguous_parameter": 50, "w_non_contiguous_grad_assigned": 10, "w_two_losses_with_equal_values": 4, "shared_grad_buffer_checked": 60, "reduced_precision_checked": 100, "w_reduced_precision_update_exceeds_tolerance": 40, "w_grad_is_a_view_of_a_flat_buffer": 15}


def gen_agg(rng, m):
    name = DETERMINISTIC[int(rng.integers(len(DETERMINISTIC)))]
    if name in ("Krum", "TrimmedMean") and m < 3:
        name = "Constant"
    if name == "Constant":
        return {"name": name, "weights": aggs.random_weights(rng, m)}
    if name == "Krum":
        return {"name": name, "f": 0, "k": 1}
    if name == "TrimmedMean":
        return {"name": name, "b": 1}
    return {"name": name}


def gen_case(rng, i, max_len=8):
    dtype = "float32" if rng.random() < 0.15 else "float64"
    ns = int(rng.integers(1, 3))
    npool = int(rng.integers(1, 4))
    L = [{"shape": list(P.LEAF_SHAPES[rng.integers(len(P.LEAF_SHAPES))]), "rg": True} for _ in range(ns + npool)]
    for k in range(1, len(L)):
        if rng.random() < 0.35:
            L[k]["shape"] = list(L[int(rng.integers(k))]["shape"])  # same-shaped parameters: sums a + b of parameters become possible
    for d in L:
        if sum(1 for x in d["shape"] if x > 1) >= 2 and rng.random() < 0.4:
            d["nc"] = True  # non-contiguous parameter
    if rng.random() < 0.3:
        src = int(rng.integers(npool))  # a twin of a head parameter (same values, another tensor): heads with exactly equal loss values
        L.append({**L[ns + src], "like": src})
        npool += 1
    vseed = int(rng.integers(1 << 30))
    A = P.gen_program(rng, dtype, leaf_descs=L, vseed=vseed)
    C = P.gen_program(rng, dtype, leaf_descs=L, vseed=vseed)
    B = P.gen_mtl_program(rng, dtype, shared_descs=L[:ns], pool_descs=L[ns:], vseed=vseed)
    nL = len(L)
    mA = None  # filled at run time
    t = len(B["heads"])
    steps = []
    n = int(rng.integers(3, max_len + 1))
    prev_call = None
    for _ in range(n):
        r = rng.random()
        if r < 0.28:
            k = int(rng.integers(1, nL + 1))
            st = {"op": "bw", "inputs": [int(x) for x in rng.choice(nL, size=k, replace=False)], "chunk": [None, 1, 2][int(rng.integers(3))],
                  "aggseed": int(rng.integers(1 << 30))}
            prev_call = st
        elif r < 0.5:
            st = {"op": "mtl", "chunk": [None, 1, 2][int(rng.integers(3))], "aggseed": int(rng.integers(1 << 30)),
                  "drop": float(rng.random())}
            prev_call = st
        elif r < 0.62:
            k = int(rng.integers(1, nL + 1))
            st = {"op": "autograd", "inputs": [int(x) for x in rng.choice(nL, size=k, replace=False)], "gseed": int(rng.integers(1 << 30))}
        elif r < 0.70:
            st = {"op": "zero", "leaf": int(rng.integers(nL))}
        elif r < 0.78:
            st = {"op": "none", "leaf": int(rng.integers(nL))}
        elif r < 0.86:
            st = {"op": "edit", "leaf": int(rng.integers(nL)), "a": float(np.round(rng.uniform(-2, 2), 3)), "b": float(np.round(rng.uniform(-1, 1), 3))}
        elif r < 0.92:
            st = {"op": "fresh", "leaf": int(rng.integers(nL)), "gseed": int(rng.integers(1 << 30)), "nc": bool(rng.random() < 0.5)}
        else:
            if prev_call is None:
                continue
            st = {"op": "repeat", "k": [2, 3, 5][int(rng.integers(3))]}
        steps.append(st)
        if st["op"] == "none" and prev_call is not None and rng.random() < 0.5:
            steps.append(dict(prev_call))  # zero_grad(set_to_none=True)-style loop: the same call again right after the reset
    return {"dtype": dtype, "vseed": vseed, "ns": ns, "L": L, "A": A, "B": B, "C": C, "steps": steps}


def _slim(case):
    c = dict(case)
    for k in ("A", "C"):
        c[k] = dict(case[k])
    c["B"] = C02._slim({"program": case["B"]})["program"]
    return c


class World:
    def __init__(self, case):
        self.case = case
        dtype = P.DT[case["dtype"]]
        ns = case["ns"]
        self.shared = P.make_leaves(case["L"][:ns], case["vseed"], dtype, tag=0)
        self.pool = P.make_leaves(case["L"][ns:], case["vseed"], dtype, tag=1)
        self.L = self.shared + self.pool
        self.A = P.build(case["A"], leaves=self.L)
        self.C = P.build(case["C"], leaves=self.L)
        self.B = P.build_mtl(case["B"], shared=self.shared, pool=self.pool)
        seen, tensors = set(), []
        for t in self.A.all_tensors() + self.C.all_tensors() + self.B.all_tensors():
            if id(t) not in seen:
                seen.add(id(t))
                tensors.append(t)
        self.tensors = tensors
        self.values = [t.detach().clone() for t in tensors]
        self.versions = [t._version for t in tensors]
        self.nonleaf = [t for t in tensors if not t.is_leaf]

    def finite(self):
        return all(torch.isfinite(v).all() for v in self.values)


def storage_key(t):
    st = t.untyped_storage()
    return st.data_ptr()


def check_case(case, ctx):
    from torchjd import backward, mtl_backward
    from ..proxy import RecordingAggregator
    dname = case["dtype"]
    dtype = P.DT[dname]
    w = World(case)
    if not w.finite():
        ctx.not_judged("nonfinite_program")
        return
    nL = len(w.L)
    ns = case["ns"]
    # references, computed once (graphs are retained, values never change)
    JA = P.reference_jacobian(w.A.outputs, w.L)
    mA = JA[0].shape[0]
    twin = P.build_mtl(case["B"])  # fresh-leaf twin for the mtl reference (same values: same vseed/tags)
    cut = P.build_mtl(case["B"], cut=True)
    B = case["B"]
    t = len(B["heads"])
    shared_refs = [["s", i] for i in range(ns)]
    task_refs_full = [[["p", int(i)] for i in h["leaves"]] for h in B["heads"]]
    shadow = [None] * nL  # expected .grad value per leaf (None = absent)
    had_grad = [False] * nL
    hist_flags = set()
    last_call = None
    vio = None
    created_then_acc = False
    glob0 = C20._global_state()
    kept = []  # gradient tensors the caller took out of .grad and still holds: (leaf, tensor, value, version)

    def keep(j, old):
        # (only tensors with a storage of their own: torch.autograd sometimes deposits .grad tensors that are views of one buffer)
        k = storage_key(old)
        if any(l2.grad is not None and l2.grad is not old and storage_key(l2.grad) == k for l2 in w.L):
            return
        kept.append((j, old, old.detach().clone(), old._version))

    def leaf_index(ref):
        return ref[1] if ref[0] == "s" else ns + ref[1]

    def run_torchjd(st):
        """Executes one torchjd call; returns (kind, bitwise expectations dict leaf->tensor, tolerance expectations, proxy)"""
        nonlocal vio
        rng = np.random.default_rng(st["aggseed"])
        if st["op"] == "bw":
            agg = RecordingAggregator(aggs.make(gen_agg(rng, mA), dtype))
            inputs = [w.L[j] for j in st["inputs"]]
            try:
                backward(w.A.outputs, agg, inputs=inputs, retain_graph=True, parallel_chunk_size=st["chunk"])
            except Exception as e:
                try:
                    aggs.make(gen_agg(np.random.default_rng(st["aggseed"]), mA), dtype)(torch.cat([JA[j] for j in st["inputs"]], dim=1))
                except Exception:
                    return "agg_rejects"
                vio = ("backward_raised", {"error": repr(e)[:300]})
                return None
            if len(agg.calls) != 1:
                vio = ("aggregator_called_n_times", {"calls": len(agg.calls)})
                return None
            J_seen, g_obj, g_val = agg.calls[0]
            blocks = [JA[j] for j in st["inputs"]]
            assigns = aj.block_assignments(J_seen, blocks, aj.TOL_J[dname])
            if not assigns:
                vio = ("jacobian_mismatch(C01)", {"step": st})
                return None
            return ("bw", st["inputs"], blocks, assigns, g_obj, g_val, {})
        else:
            agg = RecordingAggregator(aggs.make(gen_agg(rng, t), dtype))
            # explicit lists: each task lists its own pool leaves (some dropped), shared = all trunk leaves
            task_refs = [[r for r in refs if rng.random() > 0.25 * st["drop"]] for refs in task_refs_full]
            try:
                mtl_backward(w.B.losses, list(w.B.features), agg, tasks_params=[[C02.leaf_of(w.B, r) for r in refs] for refs in task_refs],
                             shared_params=[C02.leaf_of(w.B, r) for r in shared_refs], retain_graph=True, parallel_chunk_size=st["chunk"])
            except Exception as e:
                vio = ("mtl_backward_raised", {"error": repr(e)[:300]})
                return None
            if len(agg.calls) != 1:
                vio = ("aggregator_called_n_times", {"calls": len(agg.calls)})
                return None
            J_seen, g_obj, g_val = agg.calls[0]
            blocks, task_ref = C02.reference(B, twin, cut, shared_refs, task_refs)
            assigns = aj.block_assignments(J_seen, blocks, aj.TOL_J[dname])
            if not assigns:
                vio = ("jacobian_mismatch(C02)", {"step": st})
                return None
            tol_exp = {leaf_index(list(k)): gl for k, gl in task_ref.items()}
            return ("mtl", [leaf_index(r) for r in shared_refs], blocks, assigns, g_obj, g_val, tol_exp)

    def apply_and_check(res, label, objs_before=None):
        """Shadow-model update for one torchjd call and comparison with the real .grad fields."""
        nonlocal vio, created_then_acc
        kind, idxs, blocks, assigns, g_obj, g_val, tol_exp = res
        # bitwise part: one of the consistent assignments must explain every requested leaf exactly
        ok_any, detail, chosen = False, None, None
        for asg in assigns:
            off, ok, exp_map = 0, True, {}
            for pos in asg:
                j = idxs[pos]
                wd = blocks[pos].shape[1]
                exp = aj.expected_after(shadow[j], g_val[off:off + wd].reshape(w.L[j].shape))
                exp_map[j] = exp
                got = w.L[j].grad
                if got is None or not aj.bits_equal(got.detach(), exp):
                    ok = False
                    detail = {"leaf": j, "grad": None if got is None else tolist(got), "expected": tolist(exp), "had_grad_before": shadow[j] is not None}
                    break
                off += wd
            if ok:
                ok_any, chosen = True, exp_map
                break
        ctx.count("shadow_bitwise_checked", len(idxs))
        if not ok_any:
            vio = (f"{kind}_accumulation_mismatch", {"step": label, **(detail or {})})
            return
        for j, exp in chosen.items():
            if shadow[j] is not None:
                created_then_acc = created_then_acc or ("created", j) in hist_flags
                if ("edited", j) in hist_flags:
                    ctx.count("w_accumulate_onto_edited")
            else:
                hist_flags.add(("created", j))
                ctx.count("w_fresh_created")
            shadow[j] = exp
            hist_flags.add((kind, j))
        for j, gl in tol_exp.items():
            exp = None if shadow[j] is None else shadow[j].clone()
            for g in gl:
                exp = g.clone() if exp is None else exp + g
            got = w.L[j].grad
            scale = sum(aj.max_abs(g) for g in gl) + (aj.max_abs(shadow[j]) if shadow[j] is not None else 0) + 1.0
            ctx.count("task_param_checked")
            if got is None or aj.max_abs(got.detach() - exp) > {"float64": 1e-12, "float32": 1e-5}[dname] * scale:
                vio = ("task_accumulation_mismatch", {"step": label, "leaf": j, "grad": None if got is None else tolist(got), "expected": tolist(exp),
                                                      "had_grad_before": shadow[j] is not None})
                return
            if shadow[j] is None:
                hist_flags.add(("created", j))
                ctx.count("w_fresh_created")
            else:
                created_then_acc = created_then_acc or ("created", j) in hist_flags
            shadow[j] = got.detach().clone()
            hist_flags.add((kind, j))
        touched = set(chosen) | set(tol_exp)
        # observed, not judged: whether a pre-existing .grad object is updated in place (the statement asks for the
        # accumulated VALUE; an out-of-place `grad = grad + g` satisfies it as well)
        if objs_before is not None:
            for j in touched:
                if objs_before[j] is not None:
                    ctx.count("obs_existing_grad_updated_in_place" if w.L[j].grad is objs_before[j] else "obs_existing_grad_object_replaced")
        # aliasing: a .grad freshly created by THIS call shares storage with nothing else (the aggregated vector, any other
        # .grad, any program tensor).  Aliasing between .grad tensors created by torch.autograd itself is not torchjd's.
        foreign = {storage_key(g_obj): "aggregated vector"}
        for x in w.tensors:
            foreign.setdefault(storage_key(x), "program tensor")
        for _, old, _, _ in kept:
            foreign.setdefault(storage_key(old), "an earlier gradient tensor that the caller still holds")
        fresh = [j for j in touched if objs_before is not None and objs_before[j] is None and w.L[j].grad is not None]
        for j in fresh:
            k = storage_key(w.L[j].grad)
            ctx.count("alias_checked")
            if any(kj == j for kj, _, _, _ in kept):
                ctx.count("w_grad_recreated_while_caller_holds_the_previous_one")
            if k in foreign:
                vio = ("grad_aliases_foreign_storage", {"step": label, "leaf": j, "aliases": foreign[k]})
                return
            for j2, l2 in enumerate(w.L):
                if j2 != j and l2.grad is not None and storage_key(l2.grad) == k:
                    vio = ("grads_share_storage", {"step": label, "leaves": [j, j2]})
                    return

    def check_world(label, untouched):
        nonlocal vio
        if C20._global_state() != glob0:
            # "modify no other state": the process-wide switches (grad mode, default dtype, ...) included
            vio = ("global_state_changed", {"step": label, "before": glob0, "after": C20._global_state()})
            C20._restore_global_state(glob0)
            return
        for j in untouched:
            got = w.L[j].grad
            if shadow[j] is None:
                if got is not None:
                    vio = ("unrequested_grad_created", {"step": label, "leaf": j})
                    return
            elif got is None or not aj.bits_equal(got.detach(), shadow[j]):
                vio = ("unrequested_grad_changed", {"step": label, "leaf": j})
                return
        for tt, v, ver in zip(w.tensors, w.values, w.versions):
            if tt._version != ver or not aj.bits_equal(tt.detach(), v):
                vio = ("tensor_value_or_version_changed", {"step": label, "shape": list(tt.shape)})
                return
        for kj, old, val, ver in kept:
            if old._version != ver or not aj.bits_equal(old.detach(), val):
                vio = ("gradient_tensor_held_by_the_caller_changed", {"step": label, "leaf": kj, "was": tolist(val), "now": tolist(old)})
                return
        with warnings.catch_warnings():
            warnings.simplefilter("ignore")
            for tt in w.nonleaf:
                if tt.grad is not None:
                    vio = ("non_leaf_grad_populated", {"step": label})
                    return
        ctx.count("values_unchanged_checked")

    for si, st in enumerate(case["steps"]):
        label = f"{si}:{st['op']}"
        op = st["op"]
        if op in ("bw", "mtl"):
            objs_before = [l.grad for l in w.L]
            vers_before = [None if g is None else g._version for g in objs_before]
            res = run_torchjd(st)
            if res == "agg_rejects":
                ctx.not_judged("aggregator_rejects_true_jacobian")
                break
            if res is None:
                break
            apply_and_check(res, label, objs_before)
            if vio:
                break
            touched = set(res[1]) | set(res[6])
            untouched = [j for j in range(nL) if j not in touched]
            touched_storages = {storage_key(w.L[j].grad) for j in touched if w.L[j].grad is not None}
            for j in untouched:
                # views of one buffer share a version counter: torch.autograd itself sometimes deposits .grad tensors that are
                # views of a common buffer, so the _version of an untouched .grad is only judged when its storage is its own
                shares = objs_before[j] is not None and storage_key(objs_before[j]) in touched_storages
                if w.L[j].grad is not objs_before[j] or (objs_before[j] is not None and not shares and objs_before[j]._version != vers_before[j]):
                    vio = ("untouched_grad_identity_or_version_changed", {"step": label, "leaf": j})
                    break
            if vio:
                break
            check_world(label, untouched)
            last_call = (st, res[5].clone())
        elif op == "repeat":
            if last_call is None:
                continue
            pst, g_prev = last_call
            for rep in range(st["k"]):
                objs_b = [l.grad for l in w.L]
                res = run_torchjd(pst)
                if res is None or res == "agg_rejects":
                    break
                if aj.bits_equal(res[5], g_prev):
                    ctx.count("repeat_bitwise")
                else:
                    ctx.count("repeat_not_bitwise")
                    if aj.max_abs(res[5] - g_prev) > 1e-9 * (aj.max_abs(g_prev) + 1):
                        vio = ("repeated_call_gives_different_update", {"step": label, "first": tolist(g_prev), "again": tolist(res[5])})
                        break
                apply_and_check(res, f"{label}#{rep}", objs_b)
                if vio:
                    break
            if vio or res is None:
                break
            check_world(label, [j for j in range(nL) if j not in (set(res[1]) | set(res[6]))])
        elif op == "autograd":
            g = np.random.default_rng(st["gseed"])
            gts = [torch.tensor(g.standard_normal(tuple(o.shape)), dtype=torch.float64).to(dtype) for o in w.C.outputs]
            try:
                torch.autograd.backward(w.C.outputs, grad_tensors=gts, inputs=[w.L[j] for j in st["inputs"]], retain_graph=True)
            except RuntimeError as e:
                # torch.autograd accumulating into the .grad fields that torchjd left behind is an ordinary user step
                vio = ("grad_left_by_torchjd_cannot_be_used_by_the_caller", {"step": label, "operation": "torch.autograd.backward", "error": repr(e)[:300]})
                break
            # torch.autograd itself sometimes deposits ONE tensor (or views of one buffer) as the .grad of several leaves (both
            # inputs of an un-broadcast a + b).  Every later in-place step on one of them, torchjd's `+=` included, then reaches
            # the others as well: that aliasing is torch's, and per-leaf accumulation is only defined once the caller has given
            # each leaf a gradient tensor of its own (`p.grad = p.grad.clone()`), which is what the history does here.  The
            # deliberate case of one buffer shared by several requested tensors is the shard shared_grad_buffer (false alarm,
            # thorough seed 16: leaf 0 and leaf 2 received the same scalar tensor, one backward added to it twice).
            seen_storage = {}
            for j2, l2 in enumerate(w.L):
                if l2.grad is not None:
                    seen_storage.setdefault(storage_key(l2.grad), []).append(j2)
            for js in seen_storage.values():
                if len(js) > 1:
                    ctx.count("obs_torch_autograd_deposited_grads_sharing_one_storage")
                    for j2 in js:
                        w.L[j2].grad = w.L[j2].grad.detach().clone()
            for j in st["inputs"]:
                shadow[j] = None if w.L[j].grad is None else w.L[j].grad.detach().clone()
                hist_flags.add(("autograd", j))
            ctx.count("w_autograd_interleaved")
        else:
            j = st["leaf"]
            l = w.L[j]
            if op in ("zero", "edit") and l.grad is not None:
                try:  # in-place edits of .grad (zeroing, clipping, un-scaling) are ordinary user steps: they must work
                    l.grad.add_(0.0)
                except RuntimeError as e:
                    vio = ("grad_left_by_torchjd_cannot_be_used_by_the_caller", {"step": label, "operation": f"in-place {op}", "error": repr(e)[:300]})
                    break
            if op == "zero" and l.grad is not None:
                l.grad.zero_()
                shadow[j] = torch.zeros_like(shadow[j])
                hist_flags.add(("edited", j))
            elif op == "none":
                if l.grad is not None:
                    ctx.count("w_none_after_non_none")
                    keep(j, l.grad)
                l.grad = None
                shadow[j] = None
                hist_flags.discard(("created", j))
            elif op == "edit" and l.grad is not None:
                l.grad.mul_(st["a"]).add_(st["b"])
                shadow[j] = l.grad.detach().clone()
                hist_flags.add(("edited", j))
            elif op == "fresh":
                g = np.random.default_rng(st["gseed"])
                fresh = torch.tensor(g.standard_normal(tuple(l.shape)), dtype=torch.float64).to(dtype)
                if st.get("nc") and fresh.ndim >= 2:
                    fresh = fresh.transpose(0, -1).contiguous().transpose(0, -1)  # a user-assigned .grad with a non-contiguous layout
                if l.grad is not None:
                    keep(j, l.grad)
                l.grad = fresh
                if not l.grad.is_contiguous():
                    ctx.count("w_non_contiguous_grad_assigned")
                shadow[j] = l.grad.detach().clone()
                hist_flags.add(("edited", j))
        if vio:
            break
        ctx.count("steps_checked")
    if vio:
        ctx.violation(vio[0], _slim(case), vio[1])
    if created_then_acc:
        ctx.count("w_create_then_accumulate")
    if any(not l.is_contiguous() for l in w.L):
        ctx.count("w_non_contiguous_parameter")
    if any(("bw", j) in hist_flags and ("mtl", j) in hist_flags for j in range(nL)):
        ctx.count("w_mtl_and_bw_on_common_leaf")
    if any("twin_of_head" in h for h in case["B"]["heads"]) and any(s["op"] == "mtl" for s in case["steps"]):
        ctx.count("w_two_losses_with_equal_values")
    ops = [s["op"] for s in case["steps"]]
    ctx.klass(f"len={len(ops)}")
    ctx.evaluated(fingerprint(_slim(case)), nontrivial=created_then_acc)
    ctx.sample({"leaf_shapes": [l["shape"] for l in case["L"]], "history": [{k: v for k, v in s.items() if k not in ("aggseed", "gseed")} for s in case["steps"]],
                "dtype": dname})


def gen_shared_buffer(rng, i):
    """Several requested tensors whose pre-existing .grad is ONE tensor object (tied accumulators, a.grad = b.grad = buf).  backward / mtl_backward add to an existing .grad: the buffer must receive every update."""
    dtype = "float32" if rng.random() < 0.2 else "float64"
    shape = list(P.LEAF_SHAPES[rng.integers(len(P.LEAF_SHAPES))])
    n = int(rng.integers(2, 4))
    L = [{"shape": shape, "rg": True} for _ in range(n)] + [{"shape": list(P.LEAF_SHAPES[rng.integers(len(P.LEAF_SHAPES))]), "rg": True}]
    vseed = int(rng.integers(1 << 30))
    A = P.gen_program(rng, dtype, leaf_descs=L, vseed=vseed)
    return {"shared_buffer": True, "dtype": dtype, "vseed": vseed, "L": L, "A": A, "n_tied": n, "calls": int(rng.integers(1, 4)),
            "chunk": [None, 1, 2][int(rng.integers(3))], "wseed": int(rng.integers(1 << 30)), "gseed": int(rng.integers(1 << 30))}


def check_shared_buffer(case, ctx):
    from torchjd import backward
    dtype = P.DT[case["dtype"]]
    nt = case["n_tied"]

    def world():
        leaves = P.make_leaves(case["L"], case["vseed"], dtype)
        return leaves, P.build(case["A"], leaves=leaves)

    m = sum(o.numel() for o in world()[1].outputs)
    wts = [float(x) for x in np.round(np.random.default_rng(case["wseed"]).uniform(0.5, 2.0, size=m), 3)]
    # reference: the same call on a twin whose tied tensors have DISTINCT zero accumulators => the individual updates U_j
    lv, b = world()
    for j in range(nt):
        lv[j].grad = torch.zeros_like(lv[j])
    backward(b.outputs, aggs.make({"name": "Constant", "weights": wts}, dtype), inputs=lv[:nt], retain_graph=True, parallel_chunk_size=case["chunk"])
    U = [lv[j].grad.detach().clone() for j in range(nt)]
    if not all(torch.isfinite(u).all() for u in U):
        ctx.not_judged("nonfinite_program")
        return
    # subject: ONE buffer object installed as the .grad of every tied tensor
    lv, b = world()
    buf = torch.tensor(np.random.default_rng(case["gseed"]).standard_normal(tuple(case["L"][0]["shape"])), dtype=torch.float64).to(dtype)
    start = buf.clone()
    for j in range(nt):
        lv[j].grad = buf
    vio = None
    for c in range(case["calls"]):
        try:
            backward(b.outputs, aggs.make({"name": "Constant", "weights": wts}, dtype), inputs=lv[:nt], retain_graph=True, parallel_chunk_size=case["chunk"])
        except Exception as e:
            vio = ("backward_raised", {"error": repr(e)[:300]})
            break
        exp = start + (c + 1) * sum(U)
        scale = aj.max_abs(start) + (c + 1) * sum(aj.max_abs(u) for u in U) + 1.0
        ctx.count("shared_grad_buffer_checked")
        if any(lv[j].grad is not buf for j in range(nt)):
            ctx.count("obs_shared_grad_buffer_replaced")
        got = [lv[j].grad.detach() for j in range(nt)]
        err = max(aj.max_abs(g - exp) for g in got)
        ctx.maximum(f"shared_grad_buffer_{case['dtype']}", err / scale)
        if err > {"float64": 1e-12, "float32": 1e-5}[case["dtype"]] * scale:
            vio = ("update_lost_in_a_grad_buffer_shared_by_several_tensors", {"call": c + 1, "buffer_before_first_call": tolist(start), "updates": [tolist(u) for u in U],
                                                                              "grads_after": [tolist(g) for g in got], "expected": tolist(exp)})
            break
    if vio:
        ctx.violation(vio[0], case, vio[1])
    ctx.evaluated(fingerprint(case), nontrivial=any(aj.max_abs(u) > 0 for u in U))
    ctx.sample({"scenario": "one .grad buffer shared by several requested tensors", "tied_tensors": nt, "shape": case["L"][0]["shape"], "calls": case["calls"]})


def gen_reduced_precision(rng, i):
    """Parameters kept in bfloat16 / float16 (mixed-precision training) that already have a .grad, held by the caller (an optimizer,
    or a flat bucket of which .grad is a view): the update must arrive IN that tensor."""
    k, d = int(rng.integers(2, 5)), int(rng.integers(2, 6))
    return {"reduced_precision": True, "dtype": ["bfloat16", "float16"][int(rng.integers(2))], "k": k, "d": d, "entry": ["backward", "mtl"][int(rng.integers(2))],
            "agg": ["Mean", "Sum", "Constant"][int(rng.integers(3))], "calls": int(rng.integers(1, 4)), "flat_bucket": bool(rng.random() < 0.4),
            "gain": float(np.round(rng.uniform(8, 24), 2)), "vseed": int(rng.integers(1 << 30)), "chunk": [None, 1, 2][int(rng.integers(3))]}


def check_reduced_precision(case, ctx):
    from torchjd import backward, mtl_backward
    dt = {"bfloat16": torch.bfloat16, "float16": torch.float16}[case["dtype"]]
    k, d, gain = case["k"], case["d"], case["gain"]
    g = np.random.default_rng(case["vseed"])
    W0, b0, x0, h0, start0 = g.uniform(-1, 1, (k, d)), g.uniform(-1, 1, k), g.uniform(0.5, 1.5, d) * g.choice([-1, 1], d), g.uniform(0.5, 1.5, (k, k)), g.standard_normal((k, d))
    wts = [float(v) for v in np.round(g.uniform(0.5, 1.5, size=k), 2)]

    def world(dtype):
        W = torch.tensor(W0).to(dtype).requires_grad_(True)
        b = torch.tensor(b0).to(dtype).requires_grad_(True)
        H = [torch.tensor(h0[i]).to(dtype).requires_grad_(True) for i in range(k)]
        f = torch.tanh(W @ torch.tensor(x0).to(dtype) + b)
        losses = [gain * (f * H[i]).sum() for i in range(k)]
        return W, b, H, f, losses

    def agg(dtype):
        return aggs.make({"name": "Constant", "weights": wts} if case["agg"] == "Constant" else {"name": case["agg"]}, dtype)

    coef = {"Mean": [1.0 / k] * k, "Sum": [1.0] * k, "Constant": wts}[case["agg"]]
    # reference update of W in float32 on values already rounded to the reduced dtype (plain autograd)
    W, b, H, f, losses = world(dt)
    Wr = W.detach().float().requires_grad_(True)
    fr = torch.tanh(Wr @ torch.tensor(x0).to(dt).float() + b.detach().float())
    tot = sum(c * gain * (fr * H[i].detach().float()).sum() for i, c in enumerate(coef))
    U = torch.autograd.grad(tot, Wr)[0].double()
    flat = torch.zeros(k * d + 3, dtype=dt)
    held = flat[1:1 + k * d].view(k, d) if case["flat_bucket"] else torch.empty(k, d, dtype=dt)
    held.copy_(torch.tensor(start0).to(dt))
    start = held.detach().double().clone()
    W.grad = held
    eps = float(torch.finfo(dt).eps)
    vio = None
    for c in range(case["calls"]):
        if c > 0:
            W2, b, H, f, losses = world(dt)
            W2.grad = W.grad
            W = W2
        try:
            if case["entry"] == "backward":
                backward(losses, agg(dt), inputs=[W], parallel_chunk_size=case["chunk"])
            else:
                mtl_backward(losses, features=f, aggregator=agg(dt), tasks_params=[[H[i]] for i in range(k)], shared_params=[W, b], parallel_chunk_size=case["chunk"])
        except Exception as e:
            vio = ("call_raised_on_reduced_precision_parameters", {"error": repr(e)[:300]})
            break
        exp = start + (c + 1) * U
        scale = float(start.abs().max() + (c + 1) * U.abs().max()) + 1.0
        # worst measured error over 16 000 cases: 8.9 (bfloat16) and 11.7 (float16) eps scale (three accumulated calls)
        tol = (48 if case["dtype"] == "bfloat16" else 96) * eps * scale
        e_new = float((W.grad.detach().double() - exp).abs().max())
        e_held = float((held.detach().double() - exp).abs().max())
        ctx.count("reduced_precision_checked")
        ctx.maximum(f"reduced_precision_error_over_eps_scale_{case['dtype']}", e_new / (eps * scale))
        if float(U.abs().max()) > 2 * tol:
            ctx.count("w_reduced_precision_update_exceeds_tolerance")
        if not e_new <= tol:
            vio = ("wrong_grad_on_reduced_precision_parameter", {"call": c + 1, "error": e_new, "tolerance": tol})
            break
        if not e_held <= tol:
            vio = ("update_did_not_arrive_in_the_existing_grad_tensor", {"call": c + 1, "grad_is_the_tensor_held_by_the_caller": W.grad is held,
                                                                         "error_of_the_held_tensor": e_held, "error_of_the_new_grad": e_new, "tolerance": tol,
                                                                         "grad_dtype": str(W.grad.dtype)})
            break
        if W.grad.dtype != dt:
            vio = ("grad_dtype_differs_from_parameter_dtype", {"grad_dtype": str(W.grad.dtype)})
            break
    if vio:
        ctx.violation(vio[0], case, vio[1])
    if case["flat_bucket"]:
        ctx.count("w_grad_is_a_view_of_a_flat_buffer")
    ctx.evaluated(fingerprint(case), nontrivial=True)
    ctx.sample({"scenario": "bfloat16 / float16 parameter with a caller-held .grad", **{k_: v for k_, v in case.items() if k_ != "vseed"}})


def run_shard(shard, ctx):
    ml = LEN[ctx.tier]
    if shard["kind"] == "reduced_precision":
        return run_cases(ctx, shard_rng(ctx.seed, ID, ctx.shard_index), shard["n"], gen_reduced_precision, check_reduced_precision)
    if shard["kind"] == "shared_grad_buffer":
        run_cases(ctx, shard_rng(ctx.seed, ID, ctx.shard_index), shard["n"], gen_shared_buffer, check_shared_buffer)
    else:
        run_cases(ctx, shard_rng(ctx.seed, ID, ctx.shard_index), shard["n"], lambda r, i: gen_case(r, i, ml), check_case)


def replay(case, ctx):
    if case.get("reduced_precision"):
        return check_reduced_precision(case, ctx)
    (check_shared_buffer if case.get("shared_buffer") else check_case)(case, ctx)
