"""C16 — Byzantine-robust aggregators ignore a bounded number of arbitrary rows (DESIGN §4 C16).  Fault injection."""
from __future__ import annotations

import numpy as np
import torch

from .. import aggs, matrices as M, refmodels as R
from ..core import fingerprint
from ._agg import DT, EPS, as64, call, shape_ok, to_t
from ._common import run_cases, shard_rng, split_shards

ID = "C16"
LEVEL = "fault_enumeration"
RULE = ("honest matrices (m <= 10 rows) with up to b (TrimmedMean) / f (Krum) rows replaced by arbitrary finite rows (random, +-huge up to 1e12 x the "
        "honest scale, copies of honest rows, all-equal rows), all admissible (b), (f, k): TrimmedMean vs its definition and the interval of the "
        "untouched rows; Krum = plain average of exactly k distinct rows = the k smallest reference scores (sum of the m-f-2 smallest non-self "
        "distances), judged when the relative score gap >= 1e-6; too-few-rows grid EXHAUSTIVE for m <= 9; non-trivial = at least one row "
        "was corrupted at >= 1e3 x the honest scale; distinct = case sha1")
EXHAUSTIVE_NOTE = {"quick": "rejection grid: all (m, b) with m < 2b+1 and all (m, f, k) with m < f+3 or m < k, m <= 9", "thorough": "same grid"}
ASSUMPTIONS = ["Krum weights recovered from a forward hook on the weighting when present, else by least squares on a full-row-rank matrix"]
N = {"quick": 6000, "thorough": 3000000}


def exhaustive(tier):
    return False


def shards(tier, seed):
    return split_shards("corrupt", N[tier], 12 if tier == "quick" else 32) + [{"kind": "grid"}]


def requirements(tier):
    return {"trimmed_interval_checked": 1500, "trimmed_definition_checked": 1500, "krum_selection_checked": 1000, "krum_tie_plain_average_checked": 50, "too_few_rows_rejected": 100,
            "enough_rows_accepted": 100, "w_corruption_at_max_magnitude": 200, "w_krum_m_minus_f_minus_1_would_differ": 50, "w_all_b_rows_corrupted": 200,
            "w_float32": 500, "w_krum_k_ge_2": 200, "w_krum_more_than_25_rows": 100, "w_trimmed_mean_64_or_more_rows": 100}


def corrupt(rng, H, rows, scale):
    J = H.copy()
    kind = int(rng.integers(5))
    for r in rows:
        mag = scale * 10.0 ** rng.uniform(0, 12)
        if kind == 0:
            J[r] = rng.standard_normal(H.shape[1]) * mag
        elif kind == 1:
            J[r] = mag * rng.choice([-1.0, 1.0])
        elif kind == 2:
            J[r] = H[int(rng.integers(H.shape[0]))]
        elif kind == 3:
            J[r] = rng.choice([-1.0, 1.0], size=H.shape[1]) * scale * 1e12
        else:
            J[r] = rng.standard_normal() * mag
    return J


def gen_case(rng, i):
    dname = "float32" if rng.random() < 0.3 else "float64"
    which = "TrimmedMean" if rng.random() < 0.5 else "Krum"
    n = int(rng.integers(1, 8))
    scale = float(10 ** rng.uniform(-3, 3))
    if which == "TrimmedMean":
        b = int(rng.integers(0, 4))
        m = int(rng.integers(2 * b + 1, 2 * b + 6))
        if rng.random() < 0.12:
            # many workers, few trimmed (a federated round): 64 .. 260 rows, b in {1, 2, 3}
            b = int(rng.integers(1, 4))
            m = int(rng.integers(64 * b, 64 * b + 70))
        H = rng.standard_normal((m, n)) * scale
        k = int(rng.integers(0, b + 1)) if rng.random() < 0.5 else b
        rows = [int(x) for x in rng.choice(m, size=k, replace=False)]
        return {"agg": {"name": "TrimmedMean", "b": b}, "H": H.tolist(), "rows": rows, "J": corrupt(rng, H, rows, scale).tolist(), "dtype": dname, "scale": scale}
    if rng.random() < 0.15:
        # many workers whose gradients agree to ~1e-5 relative (a large common component, a tiny spread): distances must still
        # be computed accurately (no |a|^2 + |b|^2 - 2ab cancellation); byzantine rows only moderately outside the cluster
        f = int(rng.integers(1, 13))
        m = int(rng.integers(max(26, f + 3), 41))
        n = int(rng.integers(8, 65))
        ksel = int(rng.integers(1, 7))
        mag = float(10 ** rng.uniform(1.5, 3))
        spread = mag * float(10 ** rng.uniform(-5.2, -4.5)) if dname == "float32" else mag * float(10 ** rng.uniform(-9, -6))
        centre = rng.standard_normal(n) * mag
        H = centre + spread * rng.standard_normal((m, n))
        k = int(rng.integers(0, f + 1))
        rows = [int(x) for x in rng.choice(m, size=k, replace=False)]
        J = H.copy()
        for r in rows:
            J[r] = centre + spread * float(rng.uniform(10, 50)) * rng.choice([-1.0, 1.0])
        return {"agg": {"name": "Krum", "f": f, "k": ksel}, "H": H.tolist(), "rows": rows, "J": J.tolist(), "dtype": dname, "scale": spread, "class": "many_near_identical_rows"}
    f = int(rng.integers(0, 4))
    m = int(rng.integers(f + 3, f + 8))
    ksel = int(rng.integers(1, max(2, m - f)))
    # honest rows clustered around a centre; byzantine rows are arbitrary
    centre = rng.standard_normal(n) * scale
    H = centre + 0.1 * scale * rng.standard_normal((m, n))
    k = int(rng.integers(0, f + 1))
    rows = [int(x) for x in rng.choice(m, size=k, replace=False)]
    return {"agg": {"name": "Krum", "f": f, "k": ksel}, "H": H.tolist(), "rows": rows, "J": corrupt(rng, H, rows, scale).tolist(), "dtype": dname, "scale": scale}


def check_case(case, ctx):
    dname, a = case["dtype"], case["agg"]
    Jt = to_t(np.array(case["J"], dtype=np.float64).reshape(len(case["J"]), -1), dname)
    J = as64(Jt)
    if not np.isfinite(J).all():
        ctx.not_judged("nonfinite_after_cast")
        return
    m, n = J.shape
    eps = EPS[dname]
    agg = aggs.make(a, Jt.dtype)
    out, err, w_seen = call(agg, Jt)
    if err is not None:
        ctx.violation("aggregator_raised", case, {"error": repr(err)[:300]})
        ctx.evaluated()
        return
    bad = shape_ok(out, Jt)
    if bad:
        ctx.violation("output_shape_or_dtype", case, {"problem": bad})
        ctx.evaluated()
        return
    o = as64(out)
    rows = case["rows"]
    big = False
    if rows:
        honest_scale = case["scale"]
        big = bool(np.abs(J[rows]).max() >= 1e3 * honest_scale)
        if np.abs(J[rows]).max() >= 1e11 * honest_scale:
            ctx.count("w_corruption_at_max_magnitude")
    if a["name"] == "TrimmedMean":
        b = a["b"]
        ref = R.trimmed_mean_ref(J, b)
        sc = np.abs(np.sort(J, axis=0)[b:m - b]).max(axis=0) + 1e-300
        errv = np.abs(o - ref) / sc
        ctx.maximum(f"trimmed_vs_definition_{dname}", float(errv.max()))
        ctx.count("trimmed_definition_checked")
        if not (errv <= 4 * eps * (m + 1)).all():
            ctx.violation("trimmed_mean_differs_from_definition", case, {"output": o.tolist(), "reference": ref.tolist()})
        untouched = [i for i in range(m) if i not in rows]
        if untouched and len(rows) <= b:
            lo, hi = J[untouched].min(axis=0), J[untouched].max(axis=0)
            slack = (m + 1) * eps * np.maximum(np.abs(lo), np.abs(hi))
            ctx.count("trimmed_interval_checked")
            if not ((o >= lo - slack) & (o <= hi + slack)).all():
                ctx.violation("trimmed_mean_leaves_the_interval_of_untouched_rows", case, {"output": o.tolist(), "min_untouched": lo.tolist(), "max_untouched": hi.tolist()})
        if rows and len(rows) == b:
            ctx.count("w_all_b_rows_corrupted")
    else:
        f, k = a["f"], a["k"]
        # weights: hook, else least squares when J has full row rank
        w = w_seen if w_seen is not None and w_seen.shape == (m,) else None
        if w is None:
            if np.linalg.matrix_rank(J) == m:
                w = R.lstsq_weights(J, o)
            else:
                ctx.not_judged("krum_weights_unavailable")
                return
        gap = M.krum_gap(J, f, k)
        got = {i for i in range(m) if abs(w[i]) > 1e-6}
        ok_weights = all(abs(w[i] - 1.0 / k) <= 1e-5 for i in got) and len(got) == k
        if gap < {"float64": 1e-6, "float32": 1e-3}[dname]:
            # the k-th and (k+1)-th scores tie (duplicate rows, or the minimal row count m = f + 3 where the closest pair always
            # ties): WHICH rows are selected is then not determined, but the output is still the plain average of exactly k
            # distinct rows, none of which scores worse than a row left out
            ctx.count("krum_tie_plain_average_checked")
            sc = M.krum_scores(J, f)
            if not ok_weights:
                ctx.violation("krum_is_not_a_plain_average_of_k_distinct_rows", case, {"weights": w.tolist(), "k": k, "scores": sc.tolist(), "note": "tied scores"})
            elif got and len(got) < m and max(sc[i] for i in got) > min(sc[i] for i in range(m) if i not in got) * (1 + {"float64": 1e-6, "float32": 1e-3}[dname]) + 1e-300:
                ctx.violation("krum_selects_the_wrong_rows", case, {"selected": sorted(got), "scores": sc.tolist(), "note": "tied scores"})
            ctx.not_judged("krum_score_tie(selection)")
            ctx.evaluated(fingerprint(case), nontrivial=True)
            return
        sel = R.krum_selection_ref(J, f, k)
        ctx.count("krum_selection_checked")
        if not ok_weights:
            ctx.violation("krum_is_not_a_plain_average_of_k_distinct_rows", case, {"weights": w.tolist(), "k": k})
        elif got != sel:
            ctx.violation("krum_selects_the_wrong_rows", case, {"selected": sorted(got), "reference_k_smallest_scores": sorted(sel), "scores": M.krum_scores(J, f).tolist()})
        # the output itself must be the average of the reference rows
        refo = J[sorted(sel)].mean(axis=0)
        sc = np.abs(J[sorted(sel)]).max() + 1e-300
        if np.abs(o - refo).max() > 16 * eps * sc * k:
            ctx.violation("krum_output_is_not_the_average_of_the_selected_rows", case, {"output": o.tolist(), "reference": refo.tolist()})
        if m - f - 1 <= m - 1 and R.krum_selection_ref(J, f, k, neighbourhood=m - f - 1) != sel:
            ctx.count("w_krum_m_minus_f_minus_1_would_differ")
        if k >= 2:
            ctx.count("w_krum_k_ge_2")
        if m > 25:
            ctx.count("w_krum_more_than_25_rows")
    if a["name"] == "TrimmedMean" and m >= 64:
        ctx.count("w_trimmed_mean_64_or_more_rows")
    if dname == "float32":
        ctx.count("w_float32")
    ctx.evaluated(fingerprint(case), nontrivial=big)
    ctx.sample({"agg": a, "corrupted_rows": rows, "J": np.round(J, 3).tolist(), "dtype": dname})


def run_grid(ctx):
    """Too few rows => ValueError, EXHAUSTIVE for m <= 9; enough rows => accepted."""
    for dname in ("float64", "float32"):
        for m in range(1, 10):
            X = to_t(np.arange(1, m * 3 + 1, dtype=np.float64).reshape(m, 3) % 7 - 3.0, dname)
            for b in range(0, 6):
                _, err, _ = call(aggs.make({"name": "TrimmedMean", "b": b}, DT[dname]), X)
                _judge_grid(ctx, {"agg": "TrimmedMean", "b": b, "m": m, "dtype": dname}, err, m < 2 * b + 1)
            for f in range(0, 8):
                for k in range(1, 11):
                    _, err, _ = call(aggs.make({"name": "Krum", "f": f, "k": k}, DT[dname]), X)
                    _judge_grid(ctx, {"agg": "Krum", "f": f, "k": k, "m": m, "dtype": dname}, err, m < f + 3 or m < k)
    ctx.sample({"grid": "TrimmedMean b in 0..5, Krum f in 0..7, k in 1..10, m in 1..9, both dtypes"})


def _judge_grid(ctx, case, err, must_reject):
    if must_reject:
        if err is None:
            ctx.violation("too_few_rows_accepted", case, {})
        elif not isinstance(err, ValueError):
            ctx.violation("too_few_rows_rejected_with_wrong_exception", case, {"error": repr(err)[:200]})
        else:
            ctx.count("too_few_rows_rejected")
    else:
        if err is not None:
            ctx.violation("enough_rows_rejected", case, {"error": repr(err)[:200]})
        else:
            ctx.count("enough_rows_accepted")
    ctx.evaluated(fingerprint(case), nontrivial=True)


def run_shard(shard, ctx):
    if shard["kind"] == "grid":
        run_grid(ctx)
    else:
        run_cases(ctx, shard_rng(ctx.seed, ID, ctx.shard_index), shard["n"], gen_case, check_case)


def replay(case, ctx):
    if "J" in case:
        check_case(case, ctx)
    else:
        run_grid(ctx)
