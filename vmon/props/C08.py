"""C08 — Weighted aggregators stay in the row span and only look at the Gramian (DESIGN §4 C08)."""
from __future__ import annotations

import numpy as np
import torch

from .. import matrices as M, refmodels as R
from ..core import fingerprint
from . import _equiv as E
from ._agg import EPS, as64, to_t
from ._common import run_cases, shard_rng, split_shards

ID = "C08"
LEVEL = "exploration"
RULE = ("15 aggregators x hostile and well-conditioned matrices x transformations {Haar-random orthogonal Q, non-square isometry "
        "(Q Q^T = I, contains zero-column insertion), column permutation, appended zero columns, row-span residual}; Gramian-based "
        "aggregators must satisfy A(JQ) = A(J)Q, every deterministic aggregator (and PCGrad / Random / GradDrop under identical draws) "
        "A(J[:,p]) = A(J)[p] and A([J 0]) = [A(J) 0]; pseudo-inverse / solver / score based aggregators only on inputs their float64 guards "
        "classify as well-posed; non-trivial = n >= 2 and the matrix has >= 2 non-zero rows; distinct = case sha1")
ASSUMPTIONS = ["well-posedness guards (rank gap, condition <= 1e6 / 1e3, score gap, argmin margin, stationarity) computed in float64 "
               "decide *not judged*, never a verdict", "PCGrad / Random draws do not depend on the columns (same torch seed); GradDrop's "
               "per-column uniform draws are replayed permuted along with the columns through the torch.rand recorder"]
N = {"quick": 9000, "thorough": 1350000}
KINDS = ["orth", "iso", "perm", "zeros", "span"]


WIDE = {"quick": 150, "thorough": 15000}


def shards(tier, seed):
    return split_shards("random", N[tier], 14 if tier == "quick" else 30) + split_shards("wide", WIDE[tier], 2 if tier == "quick" else 6)


def requirements(tier):
    r = {}
    for name in E.GRAMIAN_BASED:
        r[f"judged:{name}/orth"] = 15
        r[f"judged:{name}/iso"] = 15
        r[f"judged:{name}/span"] = 15
    for name in E.ALL:
        r[f"judged:{name}/perm"] = 15
        r[f"judged:{name}/zeros"] = 15
    r.update({"w_rank_deficient_judged": 200, "w_float32": 500, "rng_recorder_hits": 1, "judged_many_zero_columns": 60, "w_all_entries_below_norm_eps_but_s_above": 100, "w_column_major_input": 300, "w_dense_wide_matrix": 30, "w_negative_preference_entry_judged": 30,
              "w_buffer_refilled_in_place_between_two_calls": 800})
    return r


def gen_case(rng, i):
    name = E.ALL[int(rng.integers(len(E.ALL)))]
    dname = "float32" if rng.random() < 0.25 else "float64"
    pinvish = name in ("IMTLG", "ConFIG", "AlignedMTL", "CAGrad", "Krum", "MGDA", "PCGrad")
    if rng.random() < (0.6 if pinvish else 0.25):
        m = int(rng.integers(1 if name != "Krum" else 3, 6))
        n = int(rng.integers(m, m + 6))
        # IMTL-G / ConFIG: condition numbers up to the limit of what their guards judge (tolerance grows with it)
        cmax = 2
        lo = 0.0
        if name in ("IMTLG", "ConFIG"):
            # up to the limit of what their guards judge; half of the cases in the last decade below it, where an implementation
            # that squares the condition number (pinv through the Gramian) loses eps kappa^2 against the tolerated 10 eps kappa
            cmax = 3.4 if dname == "float32" else 5.5
            lo = cmax - 1 if rng.random() < 0.5 else 0.0
        J = M.well_conditioned(rng, m, n, cond=float(10 ** rng.uniform(lo, cmax)), scale=float(10 ** rng.uniform(-2, 3)))
        klass = "well_conditioned"
    else:
        J, klass = M.gen(rng, max_m=6, max_n=8)
    if name == "Krum" and rng.random() < 0.4:
        J, klass = M.krum_hostile(rng, dname)
    m = J.shape[0]
    if rng.random() < 0.1 and name != "Krum":
        # small-scale wide matrices: EVERY entry below the default norm_eps = 1e-4 while the largest singular value is well above it
        for _ in range(20):
            mm, nn = int(rng.integers(2, 6)), int(rng.integers(10, 13))
            rows = rng.choice([-1.0, 1.0], size=(mm, 1)) * np.where(rng.random((mm, nn)) < 0.2, -1.0, 1.0)
            cand = 1e-4 * rng.uniform(0.3, 0.95, size=(mm, nn)) * rows
            if M.smax(cand) >= 2.5e-4:
                J, klass = cand, "near_norm_eps"
                break
        m = J.shape[0]
    desc = E.config(rng, name, m, dname)
    if desc is None:
        return None
    if name in ("UPGrad", "DualProj") and rng.random() < 0.2:
        # the library accepts preference vectors with NEGATIVE entries (the projection of such a vector is not the vector itself,
        # even when no two rows conflict); half of them on a matrix whose columns are sign-consistent (no conflict is visible in
        # the raw entries, while a rotation of the coordinates hides that)
        u = np.round(rng.uniform(-2, 2, size=m), 3)
        u[int(rng.integers(m))] = -float(np.round(rng.uniform(0.2, 2), 3))
        desc["pref"] = [float(x) for x in u]
        if rng.random() < 0.5:
            J = np.abs(J) * rng.choice([-1.0, 1.0], size=(1, J.shape[1]))
            klass += "+sign_consistent_columns"
    if name in E.GRAMIAN_BASED:
        kind = KINDS[int(rng.integers(len(KINDS)))]
    else:
        kind = ["perm", "zeros"][int(rng.integers(2))]
    return {"J": J.tolist(), "class": klass, "dtype": dname, "agg": desc, "kind": kind, "tseed": int(rng.integers(1 << 30)), "seed": int(rng.integers(1 << 20))}


def gen_wide(rng, i):
    """Parameters that influence nothing, in realistic numbers: 1e3 .. 1e5 all-zero columns appended (a network has many parameters)."""
    name = E.ALL[i % len(E.ALL)]
    dname = "float32" if rng.random() < 0.3 else "float64"
    m = int(rng.integers(3, 6))
    J = M.well_conditioned(rng, m, int(rng.integers(m, m + 4)), cond=float(10 ** rng.uniform(0.5, 2)), scale=float(10 ** rng.uniform(-1, 1)))
    desc = E.config(rng, name, m, dname)
    if desc is None:
        return None
    if rng.random() < 0.4:
        # a DENSE wide Jacobian (every parameter matters), with a column count that is no multiple of any plausible block size
        gen = {"seed": int(rng.integers(1 << 30)), "m": m, "n": int(rng.integers(4097, 9000)), "cond": float(10 ** rng.uniform(0, 1.5)),
               "scale": float(10 ** rng.uniform(-1, 1))}
        return {"Jgen": gen, "class": "dense_wide", "dtype": dname, "agg": desc, "kind": ["perm", "zeros"][int(rng.integers(2))],
                "tseed": int(rng.integers(1 << 30)), "seed": int(rng.integers(1 << 20))}
    return {"J": J.tolist(), "class": "well_conditioned", "dtype": dname, "agg": desc, "kind": "zeros_many", "k": [1000, 20000, 100000][int(rng.integers(3))],
            "tseed": int(rng.integers(1 << 30)), "seed": int(rng.integers(1 << 20))}


def check_case(case, ctx):
    dname, desc, kind = case["dtype"], case["agg"], case["kind"]
    name = desc["name"]
    if "Jgen" in case:
        g_ = case["Jgen"]
        J64 = M.well_conditioned(np.random.default_rng(g_["seed"]), g_["m"], g_["n"], cond=g_["cond"], scale=g_["scale"])
        ctx.count("w_dense_wide_matrix")
    else:
        J64 = np.array(case["J"], dtype=np.float64).reshape(len(case["J"]), -1)
    trng = np.random.default_rng(case["tseed"])
    col_major = bool(trng.random() < 0.2)  # the matrix handed over in a non-contiguous memory layout
    Jt = to_t(J64, dname, column_major=col_major)
    if col_major:
        ctx.count("w_column_major_input")
    J = as64(Jt)
    m, n = J.shape
    if not np.isfinite(J).all():
        ctx.not_judged("nonfinite_after_cast")
        return
    eps = EPS[dname]
    brng = np.random.default_rng([int(case["tseed"]), 8])
    if kind != "span" and brng.random() < 0.3:
        # caller-owned buffer: the very tensor object that is aggregated held OTHER content when it was aggregated a moment ago and
        # has been refilled in place since (pre-allocated Jacobian buffer); A(J) must be the value for its CURRENT content
        buf = torch.empty_like(Jt)
        buf.copy_(torch.from_numpy(brng.standard_normal((m, n)) * max(float(np.abs(J).max()), 1e-300)).to(Jt.dtype))
        E.run(desc, buf, seed=case["seed"])  # result (or refusal) of the decoy call is irrelevant
        buf.copy_(Jt)
        Jt = buf
        ctx.count("w_buffer_refilled_in_place_between_two_calls")
    out1, err1, rec1 = E.run(desc, Jt, seed=case["seed"])
    if rec1["randperm"] or rec1["rand"] or rec1["randn"]:
        ctx.count("rng_recorder_hits")
    if rec1["randperm"]:
        ctx.count("randperm_recorder_hits")
    if rec1["rand"]:
        ctx.count("rand_recorder_hits")
    if err1 is not None:
        ctx.violation("aggregator_raised", case, {"error": repr(err1)[:300], "on": "J"})
        ctx.evaluated()
        return
    orders = E.pcgrad_orders(rec1, m) if name == "PCGrad" else None
    g = E.guard(desc, J, dname, orders=orders)
    if g:
        ctx.not_judged(f"{name}:{g}")
        return
    s = M.smax(J)
    w1 = rec1["weights"]
    wl1 = float(np.abs(w1).sum()) if w1 is not None and w1.shape == (m,) else 1.0
    scale = max(s * max(wl1, 1.0, E.config_l1(desc)), float(np.linalg.norm(out1)), 1e-300)
    nontrivial = n >= 2 and int((np.linalg.norm(J, axis=1) > 0).sum()) >= 2
    rank, _ = M.rank_gap(J)
    if kind == "span":
        # residual of A(J) outside the row space of J.  The row space is taken from the UNIT rows (same span, scale-free):
        # a row of norm 1e-16 is still a direction an aggregator may legitimately use (ConFIG normalises its rows)
        Urows = M.unit_rows(J)
        Urows = Urows[np.linalg.norm(Urows, axis=1) > 0]
        if Urows.shape[0] == 0:
            r, ok = 0, True
        else:
            r, ok = M.rank_gap(Urows)
        if not ok:
            ctx.not_judged("span:rank_ambiguous")
            return
        if r == 0:
            resid = float(np.linalg.norm(out1))
        else:
            _, _, Vt = np.linalg.svd(Urows, full_matrices=False)
            V = Vt[:r].T
            resid = float(np.linalg.norm(out1 - V @ (V.T @ out1)))
        ctx.maximum(f"span_{name}_{dname}", resid / scale)
        if not resid <= E.tau(name, dname, desc, J) * scale:
            ctx.violation("leaves_the_row_span", case, {"output": out1.tolist(), "residual": resid, "scale": scale})
    else:
        script = None
        if kind in ("orth", "iso"):
            n2 = n if kind == "orth" else n + int(trng.integers(1, 4))
            Q = M.haar_orthogonal(trng, n2)[:n, :]
            J2_64 = J @ Q
            expect = out1 @ Q
        elif kind == "perm":
            perm = trng.permutation(n)
            J2_64 = J[:, perm]
            expect = out1[perm]
            if name == "GradDrop" and rec1["rand"]:
                script = {"rand": [rec1["rand"][0][torch.tensor(perm)]]}
        else:
            k = int(trng.integers(1, 4)) if kind == "zeros" else case["k"]
            J2_64 = np.concatenate([J, np.zeros((m, k))], axis=1)
            expect = np.concatenate([out1, np.zeros(k)])
            if name == "GradDrop" and rec1["rand"]:
                script = {"rand": [torch.cat([rec1["rand"][0], torch.full((k,), 0.5, dtype=rec1["rand"][0].dtype)])]}
        if name == "GradDrop":
            if not rec1["rand"]:
                ctx.not_judged("GradDrop:rand_recorder_not_hit")
                return
            if not E.graddrop_margin_ok(J, rec1["rand"][0].double().numpy(), dname):
                ctx.not_judged("GradDrop:draw_at_threshold")
                return
        J2t = to_t(J2_64, dname)
        J2 = as64(J2t)
        g2 = E.guard(desc, J2, dname, orders=orders)
        if g2:
            ctx.not_judged(f"{name}:{g2}(transformed)")
            return
        f9 = None
        if name == "ConFIG":
            # known finding F9: ConFIG's rank cut-off (pinv default rtol = max(m, n) eps) grows with the number of columns
            k1, k2 = E.config_pinv_rank(J, dname), E.config_pinv_rank(J2, dname)
            if k1 is None or k2 is None:
                ctx.not_judged("ConFIG:singular_value_within_4x_of_the_pinv_cutoff")
                return
            if k1 != k2:
                f9 = {"singular_values_kept_for_J": k1, "singular_values_kept_for_transformed_J": k2, "columns": [n, J2.shape[1]]}
                ctx.count("w_config_pinv_cutoff_moved_by_the_transformation")
        t_krum = None
        if name == "Krum" and s > 0:
            # judged when the reference selection is the same before and after the (rounded) transformation; the outputs are then
            # averages of the same rows: error = a few eps of the largest selected row
            sel1, scale = E.krum_selection(desc, J)
            sel2, _ = E.krum_selection(desc, J2)
            if sel1 != sel2:
                ctx.not_judged("Krum:selection_changed_by_rounding_of_the_transformed_matrix")
                return
            t_krum = 4 * (desc["k"] + 2 + np.sqrt(n)) * eps
        out2, err2, rec2 = E.run(desc, J2t, seed=case["seed"], script=script)
        if err2 is not None:
            ctx.violation("aggregator_raised", case, {"error": repr(err2)[:300], "on": f"transformed({kind})"})
            ctx.evaluated()
            return
        if name == "PCGrad" and E.pcgrad_orders(rec2, m) != orders:
            ctx.count("obs_pcgrad_draws_depend_on_columns")  # under one seed the draws must not depend on the columns: judged below
        if script is not None and rec2["underflow"]:
            ctx.not_judged("GradDrop:script_not_consumed")
            return
        exact_kind = kind in ("perm", "zeros", "zeros_many") and name in ("TrimmedMean", "Mean", "Sum", "Constant", "GradDrop", "Random")
        t = 16 * eps * np.sqrt(m) if exact_kind else E.tau(name, dname, desc, J)
        if t_krum is not None:
            t = t_krum
        err = float(np.linalg.norm(out2 - expect))
        ctx.maximum(f"{kind}_{name}_{dname}", err / scale)
        if not err <= t * scale:
            ctx.violation({"orth": "not_equivariant_under_orthogonal_change_of_coordinates", "iso": "not_equivariant_under_isometry",
                           "perm": "depends_on_column_order", "zeros": "zero_columns_change_the_result", "zeros_many": "zero_columns_change_the_result"}[kind],
                          case if kind != "zeros_many" else {**case, "note": f"{case['k']} zero columns appended"},
                          {"A(J)_transformed": expect[:n + 3].tolist(), "A(transformed J)": out2[:n + 3].tolist(), "error_over_scale": err / scale, "scale": scale,
                           "pinv_cutoff": f9})
    ctx.count(f"judged:{name}/{kind}" if kind != "zeros_many" else "judged_many_zero_columns")
    if kind == "zeros_many":
        ctx.klass(f"zero_columns={case['k']}")
    if rank < min(m, n):
        ctx.count("w_rank_deficient_judged")
    if case["class"] == "near_norm_eps" and float(np.abs(J).max()) < 1e-4 <= s:
        ctx.count("w_all_entries_below_norm_eps_but_s_above")
    if dname == "float32":
        ctx.count("w_float32")
    if desc.get("pref") is not None and min(desc["pref"]) < 0:
        ctx.count("w_negative_preference_entry_judged")
    ctx.klass(f"class={case['class']}")
    ctx.evaluated(fingerprint(case), nontrivial=nontrivial)
    ctx.sample({"J": np.round(J[:, :8], 4).tolist(), "columns": n, "agg": desc, "transformation": kind, "dtype": dname, "class": case["class"]})


def run_shard(shard, ctx):
    run_cases(ctx, shard_rng(ctx.seed, ID, ctx.shard_index), shard["n"], gen_wide if shard["kind"] == "wide" else gen_case, check_case)


def replay(case, ctx):
    check_case(case, ctx)


REQ_PCGRAD = ["judged:PCGrad/orth", "judged:PCGrad/iso", "judged:PCGrad/perm", "judged:PCGrad/zeros", "judged:PCGrad/span"]


def waivers(counters):
    if counters.get("randperm_recorder_hits", 0) == 0:  # PCGrad judged for m <= 4 only (all-orders guard): its quota is waived
        return {k for k in REQ_PCGRAD}
    if counters.get("rand_recorder_hits", 0) == 0:  # GradDrop's uniform draws not observable: its cases are not judged
        return {"judged:GradDrop/perm", "judged:GradDrop/zeros"}
    if counters.get("rng_recorder_hits", 0) == 0:
        return {"rng_recorder_hits", "judged:GradDrop/perm", "judged:GradDrop/zeros", "judged:PCGrad/orth", "judged:PCGrad/iso", "judged:PCGrad/perm",
                "judged:PCGrad/zeros", "judged:PCGrad/span"}
    return set()


def config_pinv_cutoff_grows_with_columns(v):
    """F9: ConFIG computes torch.linalg.pinv(unit rows) with the default tolerance max(m, n) eps, so appending (all-zero) columns moves
    the rank cut-off past a singular value of the unit rows: a different number of singular values is kept for J and for [J 0]."""
    d = v["detail"].get("pinv_cutoff")
    return (v["kind"] == "zero_columns_change_the_result" and v["case"]["agg"]["name"] == "ConFIG" and bool(d)
            and d["singular_values_kept_for_transformed_J"] < d["singular_values_kept_for_J"])


CLASSIFIERS = {"config_pinv_cutoff_grows_with_columns": config_pinv_cutoff_grows_with_columns}
