"""F9 witness (run with PYTHONPATH=/repo/src /venv/bin/python findings/F9_demo.py): ConFIG's rank cut-off grows with the number of columns.

1. appending all-zero columns changes the result (float32, unit rows with condition number ~ 500);
2. from 1 / eps columns on (8.4 million in float32) ConFIG returns the zero vector for EVERY matrix."""
import torch
from torchjd.aggregation import ConFIG

J = torch.tensor([[0.022, 0.012, 0.095, 0.052, 0.706], [0.093, 0.045, 0.046, 0.062, 0.111], [-0.006, -0.007, -0.087, -0.044, -0.682]])
a = ConFIG()(J)
b = ConFIG()(torch.cat([J, torch.zeros(3, 100000)], dim=1))[:5]
print("A(J)            =", a.tolist())
print("A([J 0])[:5]    =", b.tolist())
torch.manual_seed(0)
for n in (1_000_000, 9_000_000):
    W = torch.randn(3, n)
    out = ConFIG()(W)
    print(f"randn(3, {n}): |A| = {float(out.norm()):.4g}, cosines = {[round(float(torch.nn.functional.cosine_similarity(out, W[i], dim=0)), 4) for i in range(3)]}")
