#!/bin/sh
# tools/sweep.sh "<seeds>" "<props>" [tier]  — runs every check for every seed from fresh processes; prints one line per run.
# Evidence files are written to a scratch directory so that committed evidence is not overwritten by a sweep.
SEEDS="${1:-0 1 2 3 4 5 6 7 8 9}"
PROPS="${2:-$(cd "$(dirname "$0")/.." && python3 -c "import json;print(' '.join(c['property_id'] for c in json.load(open('MANIFEST.json'))['checks']))")}"
TIER="${3:-quick}"
cd "$(dirname "$0")/.."
EV=$(mktemp -d)
bad=0
for s in $SEEDS; do
  for p in $PROPS; do
    out=$(VERIF_SEED=$s VERIF_EVIDENCE_DIR=$EV ./check $p --tier $TIER 2>&1); rc=$?
    line=$(echo "$out" | grep -E "^(HELD|VIOLATION|INCONCLUSIVE)" | head -1 | cut -c1-160)
    echo "seed=$s $p rc=$rc $line"
    [ $rc -ne 0 ] && { bad=$((bad+1)); echo "$out" | grep -E "violation kind|INCONCLUSIVE" | head -5 | cut -c1-400; }
  done
done
rm -rf "$EV"
echo "sweep done: $bad non-zero exits"
