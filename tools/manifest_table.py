"""One row per claimed property.  Properties without a row are listed under not_applicable with the reason."""
TABLE = {
    "C01": {
        "level": "exploration",
        "design_ref": "DESIGN.md §4 C01",
        "technique": "runtime monitor: recording-aggregator proxy + .grad snapshots vs row-by-row torch.autograd Jacobian on a twin graph",
        "text": "Random autograd programs are run through backward() with a recording proxy as the aggregator; the matrix the "
                "aggregator saw is compared with a reference Jacobian computed row by row with torch.autograd on a twin graph, "
                "and every .grad delta is compared bit for bit with its own slice of the very vector the aggregator returned; "
                "raw (proxy-free) calls are compared end to end. Held on the executions observed, not proven for all programs.",
        "note": "Trusted base: torch.autograd VJPs (cross-checked against finite differences in the thorough tier), the program generator.",
    },
    "C02": {
        "level": "exploration",
        "design_ref": "DESIGN.md §4 C02",
        "technique": "runtime monitor: recording-aggregator proxy + .grad snapshots vs two-stage torch.autograd reference on twin and cut-twin graphs",
        "text": "Random trunk/heads programs are run through mtl_backward() with explicit or defaulted parameter lists in every container "
                "type (incl. one-shot generators); the matrix seen by a recording proxy must have row i = d losses[i] / d shared (through the "
                "features), shared .grad deltas equal their slice of the returned vector bit for bit, task parameters receive the sum over "
                "listing tasks of their own loss gradient. Held on the executions observed.",
        "note": "Trusted base: torch.autograd on twin graphs; features are mutually independent values (no feature is an ancestor of another).",
    },
    "C05": {
        "level": "exploration",
        "design_ref": "DESIGN.md §4 C05",
        "technique": "runtime monitor: differential execution against torch.autograd.backward on a bit-identical twin graph",
        "text": "The same random program is instantiated twice; torchjd with Constant(w)/Sum/Mean drives one copy, torch.autograd.backward "
                "with grad_tensors=w the other; all .grad fields (None pattern and values) are compared; same for mtl_backward's shared and "
                "task parameters. Held on the executions observed.",
        "note": "Trusted base: torch.autograd.backward (the oracle the property names).",
    },
    "C06": {
        "level": "exploration",
        "design_ref": "DESIGN.md §4 C06",
        "technique": "runtime monitor: history + executable shadow model of .grad, storage-aliasing map, value/_version snapshots of all tensors",
        "text": "Random histories of backward / mtl_backward / torch.autograd.backward calls and user edits of .grad over three retained "
                "graphs on common leaves; after every step each .grad must equal a sequential shadow store (bit for bit for the slices "
                "the recording proxy saw returned), all other tensors keep value and _version, no .grad shares storage with anything, "
                "k-fold repetition accumulates k times. Held on the histories observed.",
        "note": "Trusted base: the shadow model (10 lines), torch storage pointers; in-place vs out-of-place accumulation is observed, not judged.",
    },
    "C07": {
        "level": "exploration",
        "design_ref": "DESIGN.md §4 C07",
        "technique": "runtime monitor: tensor hooks counting backward sweeps and their batch sizes; recorders on torch.vmap / torch.autograd.grad; vmap-hostile autograd.Function",
        "text": "All (m,k) pairs m<=12, k in {None,1..m+2} (exhaustive) for backward and mtl_backward: tensor hooks must fire exactly "
                "ceil(m/k) times with at most k rows each, never with a batched tensor when k=1 or m=1 (and torch.vmap must not be entered), "
                "head graphs exactly once; values equal the k=1 result; a graph containing a vmap-incompatible Function must work with k=1.",
        "note": "Trusted base: torch hook semantics (one firing per sweep reaching the tensor), functorch's is_batchedtensor.",
    },
    "C12": {
        "level": "exploration",
        "design_ref": "DESIGN.md §4 C12",
        "technique": "runtime monitor: differential execution defaulted call vs explicit call with behavioural reference sets (autograd reachability on twin / cut-twin graphs)",
        "text": "The defaulted call and the explicit call with the reference leaf sets must leave identical .grad on all leaves; when the "
                "reference default sets of mtl_backward overlap the call must be rejected without any write. Programs include heads that "
                "reach the trunk around the features through leaves, trunk intermediates and sibling outputs of multi-output nodes, deep chains.",
        "note": "Trusted base: autograd.grad(..., allow_unused=True) is None <=> no differentiable path; symbolic tracker cross-check.",
    },
    "C13": {
        "level": "exploration",
        "design_ref": "DESIGN.md §4 C13",
        "technique": "runtime monitor: history replayed on a twin graph with torch.autograd equivalents; node-by-node freed-signature of the autograd graph + literal follow-up probes",
        "text": "All histories of <= 2 steps over 20 step kinds (exhaustive) and random ones of length 3: after every step the outcome, the "
                "per-node saved-tensor state of the whole graph and follow-up differentiations must agree with the twin driven by "
                "torch.autograd; with retain_graph=True everything stays live and an identical second call adds an identical update.",
        "note": "Trusted base: getattr(node, '_saved_*') raises RuntimeError iff the node's saved tensors were released; heads share no node besides the features and every feature is used by a loss.",
    },
    "C20": {
        "level": "fault_enumeration",
        "design_ref": "DESIGN.md §4 C20",
        "technique": "fault injection: every kind of invalid argument at every list position x fresh allocations; .grad object/bits/_version snapshots after the exception",
        "text": "22 kinds of invalid arguments are injected at every position of every argument list (>= 8 fresh allocations each because "
                "set order follows addresses) into otherwise valid calls with pre-existing .grad; whenever the call raises, every leaf's "
                ".grad must be the same object with the same bits and _version.",
        "note": "Only leaves' .grad is inspected. A call that is accepted instead of rejected is recorded, not judged (the property is conditional on rejection).",
    },
}
_ALL = [f"C{i:02d}" for i in range(1, 21)]
NOT_APPLICABLE = {p: "check not built yet in this session (planned, see DESIGN.md §4); not claimed until its monitor runs clean"
                  for p in _ALL if p not in TABLE}
