"""One row per claimed property.  Properties without a row are listed under not_applicable with the reason."""
TABLE = {
    "C01": {
        "level": "exploration",
        "design_ref": "DESIGN.md §4 C01",
        "technique": "runtime monitor: recording-aggregator proxy + .grad snapshots vs row-by-row torch.autograd Jacobian on a twin graph",
        "text": "Random autograd programs are run through backward() with a recording proxy as the aggregator; the matrix the "
                "aggregator saw is compared with a reference Jacobian computed row by row with torch.autograd on a twin graph, "
                "and every .grad delta is compared bit for bit with its own slice of the very vector the aggregator returned; "
                "raw (proxy-free) calls are compared end to end. Held on the executions observed, not proven for all programs.",
        "note": "Trusted base: torch.autograd VJPs (cross-checked against finite differences in the thorough tier), the program generator.",
    },
    "C02": {
        "level": "exploration",
        "design_ref": "DESIGN.md §4 C02",
        "technique": "runtime monitor: recording-aggregator proxy + .grad snapshots vs two-stage torch.autograd reference on twin and cut-twin graphs",
        "text": "Random trunk/heads programs are run through mtl_backward() with explicit or defaulted parameter lists in every container "
                "type (incl. one-shot generators); the matrix seen by a recording proxy must have row i = d losses[i] / d shared (through the "
                "features), shared .grad deltas equal their slice of the returned vector bit for bit, task parameters receive the sum over "
                "listing tasks of their own loss gradient. Held on the executions observed.",
        "note": "Trusted base: torch.autograd on twin graphs; features are mutually independent values (no feature is an ancestor of another).",
    },
    "C05": {
        "level": "exploration",
        "design_ref": "DESIGN.md §4 C05",
        "technique": "runtime monitor: differential execution against torch.autograd.backward on a bit-identical twin graph",
        "text": "The same random program is instantiated twice; torchjd with Constant(w)/Sum/Mean drives one copy, torch.autograd.backward "
                "with grad_tensors=w the other; all .grad fields (None pattern and values) are compared; same for mtl_backward's shared and "
                "task parameters. Held on the executions observed.",
        "note": "Trusted base: torch.autograd.backward (the oracle the property names).",
    },
}
_ALL = [f"C{i:02d}" for i in range(1, 21)]
NOT_APPLICABLE = {p: "check not built yet in this session (planned, see DESIGN.md §4); not claimed until its monitor runs clean"
                  for p in _ALL if p not in TABLE}
