"""One row per claimed property.  Properties without a row are listed under not_applicable with the reason."""
TABLE = {
    "C01": {
        "level": "exploration",
        "design_ref": "DESIGN.md §4 C01",
        "technique": "runtime monitor: recording-aggregator proxy + .grad snapshots vs row-by-row torch.autograd Jacobian on a twin graph",
        "text": "Random autograd programs are run through backward() with a recording proxy as the aggregator; the matrix the "
                "aggregator saw is compared with a reference Jacobian computed row by row with torch.autograd on a twin graph, "
                "and every .grad delta is compared bit for bit with its own slice of the very vector the aggregator returned; "
                "raw (proxy-free) calls are compared end to end. Held on the executions observed, not proven for all programs.",
        "note": "Trusted base: torch.autograd VJPs (cross-checked against finite differences in the thorough tier), the program generator.",
    },
    "C02": {
        "level": "exploration",
        "design_ref": "DESIGN.md §4 C02",
        "technique": "runtime monitor: recording-aggregator proxy + .grad snapshots vs two-stage torch.autograd reference on twin and cut-twin graphs",
        "text": "Random trunk/heads programs are run through mtl_backward() with explicit or defaulted parameter lists in every container "
                "type (incl. one-shot generators); the matrix seen by a recording proxy must have row i = d losses[i] / d shared (through the "
                "features), shared .grad deltas equal their slice of the returned vector bit for bit, task parameters receive the sum over "
                "listing tasks of their own loss gradient. Held on the executions observed.",
        "note": "Trusted base: torch.autograd on twin graphs; features are mutually independent values (no feature is an ancestor of another).",
    },
    "C05": {
        "level": "exploration",
        "design_ref": "DESIGN.md §4 C05",
        "technique": "runtime monitor: differential execution against torch.autograd.backward on a bit-identical twin graph",
        "text": "The same random program is instantiated twice; torchjd with Constant(w)/Sum/Mean drives one copy, torch.autograd.backward "
                "with grad_tensors=w the other; all .grad fields (None pattern and values) are compared; same for mtl_backward's shared and "
                "task parameters. Held on the executions observed.",
        "note": "Trusted base: torch.autograd.backward (the oracle the property names).",
    },
    "C06": {
        "level": "exploration",
        "design_ref": "DESIGN.md §4 C06",
        "technique": "runtime monitor: history + executable shadow model of .grad, storage-aliasing map, value/_version snapshots of all tensors",
        "text": "Random histories of backward / mtl_backward / torch.autograd.backward calls and user edits of .grad over three retained "
                "graphs on common leaves; after every step each .grad must equal a sequential shadow store (bit for bit for the slices "
                "the recording proxy saw returned), all other tensors keep value and _version, no .grad shares storage with anything, "
                "k-fold repetition accumulates k times. Held on the histories observed.",
        "note": "Trusted base: the shadow model (10 lines), torch storage pointers; in-place vs out-of-place accumulation is observed, not judged.",
    },
    "C07": {
        "level": "exploration",
        "design_ref": "DESIGN.md §4 C07",
        "technique": "runtime monitor: tensor hooks counting backward sweeps and their batch sizes; recorders on torch.vmap / torch.autograd.grad; vmap-hostile autograd.Function",
        "text": "All (m,k) pairs m<=12, k in {None,1..m+2} (exhaustive) for backward and mtl_backward: tensor hooks must fire exactly "
                "ceil(m/k) times with at most k rows each, never with a batched tensor when k=1 or m=1 (and torch.vmap must not be entered), "
                "head graphs exactly once; values equal the k=1 result; a graph containing a vmap-incompatible Function must work with k=1.",
        "note": "Trusted base: torch hook semantics (one firing per sweep reaching the tensor), functorch's is_batchedtensor.",
    },
    "C12": {
        "level": "exploration",
        "design_ref": "DESIGN.md §4 C12",
        "technique": "runtime monitor: differential execution defaulted call vs explicit call with behavioural reference sets (autograd reachability on twin / cut-twin graphs)",
        "text": "The defaulted call and the explicit call with the reference leaf sets must leave identical .grad on all leaves; when the "
                "reference default sets of mtl_backward overlap the call must be rejected without any write. Programs include heads that "
                "reach the trunk around the features through leaves, trunk intermediates and sibling outputs of multi-output nodes, deep chains.",
        "note": "Trusted base: autograd.grad(..., allow_unused=True) is None <=> no differentiable path; symbolic tracker cross-check.",
    },
    "C13": {
        "level": "exploration",
        "design_ref": "DESIGN.md §4 C13",
        "technique": "runtime monitor: history replayed on a twin graph with torch.autograd equivalents; node-by-node freed-signature of the autograd graph + literal follow-up probes",
        "text": "All histories of <= 2 steps over 20 step kinds (exhaustive) and random ones of length 3: after every step the outcome, the "
                "per-node saved-tensor state of the whole graph and follow-up differentiations must agree with the twin driven by "
                "torch.autograd; with retain_graph=True everything stays live and an identical second call adds an identical update.",
        "note": "Trusted base: getattr(node, '_saved_*') raises RuntimeError iff the node's saved tensors were released; heads share no node besides the features and every feature is used by a loss.",
    },
    "C20": {
        "level": "fault_enumeration",
        "design_ref": "DESIGN.md §4 C20",
        "technique": "fault injection: every kind of invalid argument at every list position x fresh allocations; .grad object/bits/_version snapshots after the exception",
        "text": "22 kinds of invalid arguments are injected at every position of every argument list (>= 8 fresh allocations each because "
                "set order follows addresses) into otherwise valid calls with pre-existing .grad; whenever the call raises, every leaf's "
                ".grad must be the same object with the same bits and _version.",
        "note": "Only leaves' .grad is inspected. A call that is accepted instead of rejected is recorded, not judged (the property is conditional on rejection).",
    },
    "C03": {
        "level": "exploration", "design_ref": "DESIGN.md §4 C03",
        "technique": "runtime monitor: aggregator output vs an executable reference model (exact QP minimiser by Lawson-Hanson NNLS / active-set enumeration, certified a posteriori by a KKT strong-convexity bound)",
        "text": "UPGrad / DualProj are run on hostile matrices, preference vectors and (norm_eps, reg_eps) pairs sampled a decade apart, on both "
                "sides of the normalisation threshold; the output must equal J^T w* for the exact minimiser w* of the regularised QP, in units of "
                "s |w*| with a tolerance derived from the conditioning; below norm_eps and without conflicts it must be J^T u.",
        "note": "Trusted base: NumPy/SciPy float64 linear algebra; the reference is only used when its own KKT certificate is 4x tighter than the tolerance.",
    },
    "C04": {
        "level": "exploration", "design_ref": "DESIGN.md §4 C04",
        "technique": "runtime monitor: assertion on J.A(J) with the stated allowances; exhaustive enumeration of all {-1,0,1} matrices up to 3x3; reference min-norm point by support enumeration",
        "text": "Every entry of J.A(J) must be >= -(allowance + rounding slop) for UPGrad, DualProj, MGDA and CAGrad(c>=1): exhaustively on all 21 297 "
                "{-1,0,1} matrices up to 3x3 and on hostile matrices with preference vectors and iteration budgets; MGDA's sub-optimality is also "
                "compared with 8 s^2/(max_iters+2), for budgets 1 .. 500 on all classes and 2000 .. 5000 on matrices where Frank-Wolfe revisits a vertex.",
        "note": "Allowances as stated in the property; CAGrad tolerance 3e-4 (float64) / 5e-3 (float32) times s^2 (1+c) (conic solver).",
    },
    "C08": {
        "level": "exploration", "design_ref": "DESIGN.md §4 C08",
        "technique": "runtime monitor: metamorphic relations (orthogonal / isometric change of coordinates, column permutation, zero columns, row-span residual) with float64 well-posedness guards and replayed RNG draws",
        "text": "15 aggregators x hostile and well-conditioned matrices: A(JQ) = A(J)Q for Gramian-based ones, column-permutation and "
                "zero-column equivariance for all (randomised ones under identical recorded draws), output in the row span for weighted ones.",
        "note": "Inputs on which a decision threshold of the algorithm is within rounding distance are not judged (counted).",
    },
    "C09": {
        "level": "exploration", "design_ref": "DESIGN.md §4 C09",
        "technique": "runtime monitor: metamorphic relation A(diag(a c1 + b c2) J) = a A(diag(c1) J) + b A(diag(c2) J); reg_eps ladder for UPGrad",
        "text": "Mean, Sum, Constant, ConFIG, PCGrad and Random (identical draws) must be linear in positive row scalings to rounding; UPGrad's defect "
                "must stay below 500 sqrt(reg_eps) x scale on every rung of the ladder 1e-2..1e-12 and below 1e-3 x scale on the last.",
        "note": "Scale = a s1|w1| + b s2|w2| + s3|w3| with weights read by a forward hook (>= 1).",
    },
    "C10": {
        "level": "exploration", "design_ref": "DESIGN.md §4 C10",
        "technique": "runtime monitor: metamorphic relation under ALL m! row permutations (m <= 4 quick, <= 5 thorough), preference / weight / leak vectors permuted along",
        "text": "13 aggregators, with and without per-row vectors, must give the same result for every row permutation of every judged matrix "
                "(exhaustive for small m, 20 random permutations beyond).",
        "note": "Score ties, ambiguous rank, argmin ties and near-stationarity are not judged.",
    },
    "C11": {
        "level": "exploration", "design_ref": "DESIGN.md §3, §4 C11",
        "technique": "runtime contracts (icontract) on every Aggregator.__call__ + scale ladder over 27/200 decades + rejection matrix + call-history differential against fresh instances",
        "text": "An always-on contract checks on every aggregator call that the input is untouched (bits and _version), the module state is "
                "unchanged and the result has the right shape / dtype / finiteness; a ladder of scales checks totality and A(tJ) = tA(J); "
                "invalid inputs must raise ValueError; results must not depend on earlier calls; equal seeds give equal results. The "
                "thorough tier also runs the repository's own tests under the contracts.",
        "note": "NashMTL excluded as the property says; homogeneity of UPGrad / DualProj / CAGrad only while both scales are >= 2 norm_eps.",
    },
    "C14": {
        "level": "exploration", "design_ref": "DESIGN.md §4 C14",
        "technique": "runtime monitor: executable type-checking model of the transform algebra vs real constructors and applications; exhaustive enumeration of depth <= 1 terms over 3 keys",
        "text": "All atoms and all binary composites (depth <= 1, exhaustive), class-representative combinations at depth 2 and 3 and random terms: "
                "constructibility, required/output keys, rejection of all 7 wrong key sets, output keys and dictionary type, associativity / "
                "commutativity, immutability and shape checks of the five dictionary types; plus the Transform.__call__ contract.",
        "note": "Type-ill-formed but key-well-formed terms are judged for construction and key checks only.",
    },
    "C15": {
        "level": "exploration", "design_ref": "DESIGN.md §4 C15",
        "technique": "runtime monitor: each building-block transform vs torch.autograd VJPs on a twin graph / NumPy restatement of its specification",
        "text": "Grad, Jac (rows vs Grad, linearity, zeros for unreachable inputs, chunk sizes), Jac chaining vs end-to-end, Init, Diagonalize, Stack, "
                "Select and Aggregate (recording proxy) on random keys of 0-d..4-d shapes with equal-sized keys frequent.",
        "note": "Trusted base: torch.autograd.grad with explicit cotangents.",
    },
    "C16": {
        "level": "fault_enumeration", "design_ref": "DESIGN.md §4 C16",
        "technique": "fault injection: up to b / f rows replaced by arbitrary values up to 1e12 x the honest scale; reference definitions; exhaustive too-few-rows grid",
        "text": "TrimmedMean must equal its definition and stay inside the interval of the untouched rows; Krum must be the plain average of exactly "
                "the k rows with the smallest reference scores; both must reject every matrix with too few rows (grid exhaustive for m <= 9).",
        "note": "Krum judged when the relative gap between the k-th and (k+1)-th score is >= 1e-6.",
    },
    "C17": {
        "level": "exploration", "design_ref": "DESIGN.md §4 C17",
        "technique": "runtime monitor: defining equations of IMTL-G / ConFIG / Aligned-MTL asserted on full-row-rank matrices of bounded condition number",
        "text": "Equal projections and unit-sum weights (IMTL-G), equal positive cosines proportional to the preference vector and length = sum of "
                "projections (ConFIG), orthogonal re-balanced rows of length sigma_min and preference-weighted combination (Aligned-MTL), zero "
                "matrices of all shapes.",
        "note": "Condition number <= 1e4 (float64) / 1e2 (float32); Aligned-MTL <= 50 because its rank tolerance uses the float32 epsilon.",
    },
    "C18": {
        "level": "exploration", "design_ref": "DESIGN.md §4 C18",
        "technique": "schedule injection (scripted torch.randperm: all (m-1)!^m projection orders for m <= 3/4) + recorded RNG draws + finite candidate sets + defining equations",
        "text": "PCGrad is forced through every combination of projection orders and compared with the reference for that schedule; free-seed "
                "outputs must lie in the candidate set; GradDrop coordinates must be one of the two candidates and agree with the recorded "
                "uniform draws; MGDA / Random / CAGrad against their defining equations.",
        "note": "Decisions within rounding distance of their threshold are not judged.",
    },
    "C19": {
        "level": "exploration", "design_ref": "DESIGN.md §4 C19",
        "technique": "runtime monitor: call/reset histories vs fresh-instance replays and a schedule model; recorder on cvxpy.Problem.solve; exhaustive histories over {M1, M2, reset}",
        "text": "All histories up to length 3 (quick) / 5 (thorough) x k in 1..4 x max_norm in {0,0.5,1,10}: every call returns, the suffix after the "
                "last reset equals a fresh instance, the solver is entered exactly on calls 0, k, 2k.. and reused weights equal the last "
                "recomputed ones, the norm bound holds.",
        "note": "Weights recovered by least squares on full-row-rank matrices; ECOS deterministic.",
    },
}
_ALL = [f"C{i:02d}" for i in range(1, 21)]
NOT_APPLICABLE = {p: "check not built yet in this session (planned, see DESIGN.md §4); not claimed until its monitor runs clean"
                  for p in _ALL if p not in TABLE}
