"""One row per claimed property.  Properties without a row are listed under not_applicable with the reason."""
TABLE = {
    "C01": {
        "level": "exploration",
        "design_ref": "DESIGN.md §4 C01",
        "technique": "runtime monitor: recording-aggregator proxy + .grad snapshots vs row-by-row torch.autograd Jacobian on a twin graph",
        "text": "Random autograd programs are run through backward() with a recording proxy as the aggregator; the matrix the "
                "aggregator saw is compared with a reference Jacobian computed row by row with torch.autograd on a twin graph, "
                "and every .grad delta is compared bit for bit with its own slice of the very vector the aggregator returned; "
                "raw (proxy-free) calls are compared end to end. Held on the executions observed, not proven for all programs.",
        "note": "Trusted base: torch.autograd VJPs (cross-checked against finite differences in the thorough tier), the program generator.",
    },
}
_ALL = [f"C{i:02d}" for i in range(1, 21)]
NOT_APPLICABLE = {p: "check not built yet in this session (planned, see DESIGN.md §4); not claimed until its monitor runs clean"
                  for p in _ALL if p not in TABLE}
