#!/usr/bin/env python3
"""Regenerates MANIFEST.json from the table below (claimed = a vmon/props/Cxx.py module exists and is listed in CLAIMED)."""
import json, os, sys
ROOT = os.path.dirname(os.path.dirname(os.path.abspath(__file__)))
sys.path.insert(0, ROOT)
from tools.manifest_table import TABLE, NOT_APPLICABLE

checks = []
for pid, row in sorted(TABLE.items()):
    checks.append({
        "property_id": pid,
        "quick_cmd": f"./check {pid} --tier quick",
        "thorough_cmd": f"./check {pid} --tier thorough",
        "evidence_file": f"/verif/evidence/{pid}.json",
        "replay_cmd_template": f"./check {pid} --replay {{path}}",
        "engine": "vmon",
        "level_claimed": {"category": row["level"], "text": row["text"], "design_ref": row["design_ref"]},
        "level_note": row["note"],
        "technique": row["technique"],
    })
manifest = {
    "version": 1,
    "setup_cmd": "./setup.sh",
    "hooks": {
        "guard": "TORCHJD_VERIF",
        "enable": "no source hooks: all monitors observe from outside (public API above, torch/cvxpy boundary below); "
                  "TORCHJD_VERIF=1 only switches the harness-side contracts on in vmon.pytest_plugin",
        "baseline_off_cmd": "cd /repo && /venv/bin/python -m pytest -ra -q -p no:cacheprovider --timeout=900 --continue-on-collection-errors",
        "source_commits": [],
        "add_only": True,
    },
    "engines": [{"name": "vmon", "path": "/verif/vmon", "serves_properties": sorted(TABLE),
                 "kind_free_text": "runtime monitors: boundary recorders, recording aggregator proxy, twin-graph reference models, "
                                   "icontract contracts, schedule/fault injection; 16 worker subprocesses"}],
    "checks": checks,
    "notes": "Exit codes: 0 held / 1 violation (VIOLATION line + replay) / 2 inconclusive (a deciding monitor was not reached, "
             "never folded into 0 or 1). Known findings: /verif/known_findings.json. See DESIGN.md.",
    "not_applicable": [{"property_id": k, "reason": v} for k, v in sorted(NOT_APPLICABLE.items())],
}
with open(os.path.join(ROOT, "MANIFEST.json"), "w") as f:
    json.dump(manifest, f, indent=1)
    f.write("\n")
try:
    sys.path.append(os.path.join(ROOT, ".deps"))
    import jsonschema
    jsonschema.validate(manifest, json.load(open(os.path.join(ROOT, "schemas", "MANIFEST.schema.json"))))
    print("MANIFEST.json valid;", len(checks), "checks,", len(NOT_APPLICABLE), "not_applicable")
except ImportError:
    print("MANIFEST.json written (jsonschema unavailable)")
