#!/usr/bin/env python3
"""Writes the prompts for the independent property-breaking sub-agents to <outdir>/<Cxx>.txt.

Each prompt contains ONLY the text of one property (statement + quantifier), the rules of the exercise and one line per
regression already tried for that property (first sentence of seeded/<id>/NOTE.md), so that the agent has to find another
mechanism.  Nothing about /verif (checks, oracles, workloads) is disclosed.  `{wt}` is left as a placeholder for the agent's
private scratch worktree.

usage: tools/gen_prompts.py <outdir> [--round N]
"""
import json, os, re, sys

ROOT = os.path.dirname(os.path.dirname(os.path.abspath(__file__)))
out = sys.argv[1]
rnd = sys.argv[sys.argv.index("--round") + 1] if "--round" in sys.argv else "x"
os.makedirs(out, exist_ok=True)
props = [json.loads(l) for l in open(os.path.join(ROOT, "properties.jsonl"))]
tried = {}
for d in sorted(os.listdir(os.path.join(ROOT, "seeded"))):
    meta = os.path.join(ROOT, "seeded", d, "meta.json")
    if not os.path.exists(meta):
        continue
    pid = json.load(open(meta))["breaks_property"]
    note = os.path.join(ROOT, "seeded", d, "NOTE.md")
    text = open(note).read() if os.path.exists(note) else ""
    lines = [l.strip(" -*#") for l in text.splitlines() if l.strip() and not l.startswith("#")]
    first = " ".join(lines[:2])[:330]
    first = re.sub(r"\s+", " ", first).replace("**", "")
    tried.setdefault(pid, []).append(f"   * {d}: {first}")

T = """You are helping to evaluate a verification suite for the open-source Python library TorchJD/torchjd (Jacobian descent for PyTorch). Your job is to play the role of a developer who introduces a subtle regression.

Your private scratch copy of the repository is the git worktree at {{wt}} (source under {{wt}}/src/torchjd, tests under {{wt}}/tests). Work ONLY inside {{wt}}. Do NOT read, list or touch /verif or /repo (other than through your own worktree), and do not look at any other /tmp/wt* directory.

To run code against your copy use:  cd {{wt}} && PYTHONPATH={{wt}}/src /venv/bin/python <script>     (PYTHONPATH makes your copy win over the installed one)
To run the existing test suite (about 20 s, 1448 tests):  cd {{wt}} && PYTHONPATH={{wt}}/src /venv/bin/python -m pytest -q -p no:cacheprovider tests
There is no network.

THE PROPERTY users rely on ({pid}: {title}):
"{statement}"
It is meant to hold: {quant}

TASK: make ONE realistic change to the library source under {{wt}}/src/torchjd (a plausible refactor, optimisation, "simplification" or bug a real developer could introduce; a few lines, possibly at two cooperating sites that each look fine alone) such that
  (1) the library still imports and the ENTIRE existing test suite still passes (run it and confirm: all 1448 pass), and
  (2) the property above is broken, but ONLY under something specific: an unusual input or configuration, a particular multi-step sequence of calls, a particular argument position or order, a specific size/shape/dtype combination, etc. Ordinary first-try usage (e.g. the README example) should still behave correctly. Avoid changes that break the property on nearly every call.
The following regressions have ALREADY been tried by other developers (one per line); choose a clearly different mechanism, preferably in a different place of the code base, and preferably one that needs a different kind of trigger:
{tried}
Prefer breaking the behaviour the property describes over raising exceptions. Do not edit the tests.

DELIVERABLES, all inside {{wt}}:
  - leave your source change applied in the worktree, and also write it to {{wt}}/CHANGE.diff  (cd {{wt}} && git diff -- src > CHANGE.diff)
  - {{wt}}/demo.py : a small standalone program using only the public behaviour of torchjd (+ torch/numpy) that exits with status 1 and prints what went wrong when run against your changed copy, and exits 0 against the unchanged library. Verify both: run it with PYTHONPATH={{wt}}/src (must fail); then revert your change with `git apply -R CHANGE.diff`, run it again (must pass), and re-apply with `git apply CHANGE.diff`. NEVER use `git stash` (the stash is shared with other worktrees of the same repository and will corrupt them).
  - {{wt}}/NOTE.md : 5-10 lines: a short id-like title, what you changed, why it is plausible, exactly what is needed for it to manifest, and the test-suite result you observed.
Finish by printing the contents of CHANGE.diff and NOTE.md in your final answer."""

for p in props:
    txt = T.format(pid=p["id"], title=p["title"], statement=p["statement"], quant=p["quantifier"]["text"],
                   tried="\n".join(tried.get(p["id"], ["   (none yet)"])))
    open(os.path.join(out, f"{p['id']}-r{rnd}.txt"), "w").write(txt)
print("wrote", len(props), "prompts to", out)
