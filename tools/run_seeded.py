#!/usr/bin/env python3
"""Re-runs the targeted quick check against every kept seeded change (scratch copy of /repo + patch.diff; removed afterwards).

usage: tools/run_seeded.py [--only SUBSTR] [--seed N] [--jobs N] [--md seeded/RESULTS.md]
"""
import argparse, json, os, shutil, subprocess, sys, tempfile, time
ROOT = os.path.dirname(os.path.dirname(os.path.abspath(__file__)))
ap = argparse.ArgumentParser()
ap.add_argument("--only", default="")
ap.add_argument("--seed", default="0")
ap.add_argument("--md", default="")
ap.add_argument("--jobs", type=int, default=1)
a = ap.parse_args()
rows = []


def one(name):
    d = os.path.join(ROOT, "seeded", name)
    meta = json.load(open(os.path.join(d, "meta.json")))
    prop = meta["breaks_property"]
    scratch = tempfile.mkdtemp(prefix="vseed-")
    try:
        subprocess.run(["rsync", "-a", "--exclude", ".git", "--exclude", "__pycache__", "/repo/", scratch + "/"], check=True)
        r = subprocess.run(["patch", "-p1", "-s", "-i", os.path.join(d, "patch.diff")], cwd=scratch, capture_output=True, text=True)
        if r.returncode != 0:
            rows.append((name, prop, "patch does not apply", 0, "", ""))
            return
        t0 = time.time()
        env = dict(os.environ, VERIF_REPO=scratch, VERIF_SEED=a.seed, VERIF_EVIDENCE_DIR=os.path.join(scratch, ".ev"),
                   VERIF_REPLAY_DIR=os.path.join(scratch, ".replays"))
        r = subprocess.run([os.path.join(ROOT, "check"), prop, "--tier", "quick"], env=env, capture_output=True, text=True)
        kinds = sorted({l.split("kind=")[1].split()[0] for l in r.stdout.splitlines() if "violation kind=" in l})
        # the replay file named on the VIOLATION line must reproduce the violation from a fresh process (same changed tree)
        rep = ""
        vl = [l for l in r.stdout.splitlines() if l.startswith("VIOLATION ")]
        if vl and "replay=" in vl[0]:
            path = vl[0].split("replay=")[1].strip()
            rr = subprocess.run([os.path.join(ROOT, "check"), prop, "--replay", path], env=env, capture_output=True, text=True)
            rep = "replay reproduces" if rr.returncode == 1 else f"REPLAY DOES NOT REPRODUCE (exit {rr.returncode})"
        rows.append((name, prop, r.returncode, round(time.time() - t0, 1), ",".join(kinds), rep))
        print(f"{name:50s} {prop} exit={r.returncode} {time.time()-t0:5.1f}s {','.join(kinds)} [{rep}]", flush=True)
    finally:
        shutil.rmtree(scratch, ignore_errors=True)
names = [n for n in sorted(os.listdir(os.path.join(ROOT, "seeded")))
         if os.path.isdir(os.path.join(ROOT, "seeded", n)) and (not a.only or a.only in n)]
from concurrent.futures import ThreadPoolExecutor
with ThreadPoolExecutor(max_workers=max(1, a.jobs)) as ex:
    list(ex.map(one, names))
rows.sort()
missed = [r for r in rows if r[2] != 1]
print(f"{len(rows) - len(missed)}/{len(rows)} seeded changes caught by their targeted quick check; missed: {[r[0] for r in missed]}")
print("replays that do not reproduce:", [r[0] for r in rows if r[5].startswith("REPLAY")])
if a.md:
    if a.only and os.path.exists(a.md):
        # partial re-run: keep the rows of the changes that were not re-run
        have = {r[0] for r in rows}
        for line in open(a.md):
            c = [x.strip() for x in line.strip().strip("|").split("|")]
            if line.startswith("| S") and len(c) == 6 and c[0] not in have and os.path.isdir(os.path.join(ROOT, "seeded", c[0])):
                rows.append((c[0], c[1], int(c[2]) if c[2].lstrip("-").isdigit() else c[2], c[3], c[4], c[5]))
        rows.sort(key=lambda r: r[0])
        missed = [r for r in rows if r[2] != 1]
    with open(a.md, "w") as f:
        f.write("# Seeded changes (written by independent sub-agents that saw only the property text)\n\nRe-run with `tools/run_seeded.py --md seeded/RESULTS.md` "
                f"(quick tier, VERIF_SEED={a.seed}). Every change keeps the repository's 1 448 tests green (see each meta.json).\n\n"
                "| seeded change | property | exit of the targeted quick check | seconds | violation kinds reported | replay file |\n|---|---|---|---|---|---|\n")
        for r in rows:
            f.write(f"| {r[0]} | {r[1]} | {r[2]} | {r[3]} | {r[4]} | {r[5]} |\n")
        f.write(f"\n{len(rows) - len(missed)}/{len(rows)} caught.\n")
sys.exit(1 if missed else 0)
