#!/usr/bin/env python3
"""Power check: apply each mutant (string substitution on a scratch copy of the repository, outside /repo and /verif),
run the targeted quick checks against the scratch copy (VERIF_REPO), expect exit 1; optionally run the repository's own
tests on the mutant to confirm it is realistic (suite still green).  Scratch copies are removed afterwards.

usage: tools/run_mutants.py [--tests] [--tier quick] [--only NAME_SUBSTR] [--props C01,C02]
"""
import argparse, json, os, shutil, subprocess, sys, tempfile, time
ROOT = os.path.dirname(os.path.dirname(os.path.abspath(__file__)))
sys.path.insert(0, ROOT)
from mutants.specs import MUTANTS

ap = argparse.ArgumentParser()
ap.add_argument("--tests", action="store_true")
ap.add_argument("--tier", default="quick")
ap.add_argument("--only", default="")
ap.add_argument("--props", default="")
ap.add_argument("--seed", default="0")
a = ap.parse_args()
rows = []
for mu in MUTANTS:
    if a.only and a.only not in mu["name"]:
        continue
    props = mu["props"]
    if a.props:
        props = [p for p in props if p in a.props.split(",")]
        if not props:
            continue
    scratch = tempfile.mkdtemp(prefix="vmut-")
    try:
        subprocess.run(["rsync", "-a", "--exclude", ".git", "--exclude", "__pycache__", "/repo/", scratch + "/"], check=True)
        for ed in mu["edits"]:
            p = os.path.join(scratch, ed["file"])
            s = open(p).read()
            if s.count(ed["old"]) != 1:
                raise SystemExit(f"mutant {mu['name']}: pattern occurs {s.count(ed['old'])}x in {ed['file']}")
            open(p, "w").write(s.replace(ed["old"], ed["new"]))
        tests = ""
        if a.tests:
            env = dict(os.environ, PYTHONPATH=os.path.join(scratch, "src"), PYTHONDONTWRITEBYTECODE="1")
            r = subprocess.run(["/venv/bin/python", "-m", "pytest", "-q", "-x", "-p", "no:cacheprovider", "tests"], cwd=scratch, env=env,
                               capture_output=True, text=True)
            tests = (r.stdout.strip().splitlines() or ["?"])[-1]
        for p in props:
            t0 = time.time()
            env = dict(os.environ, VERIF_REPO=scratch, VERIF_SEED=a.seed, VERIF_EVIDENCE_DIR=os.path.join(scratch, "ev"))
            r = subprocess.run([os.path.join(ROOT, "check"), p, "--tier", a.tier], env=env, capture_output=True, text=True)
            kinds = sorted({l.split("kind=")[1].split()[0] for l in r.stdout.splitlines() if "violation kind=" in l})
            rows.append((mu["name"], p, r.returncode, round(time.time() - t0, 1), tests, ",".join(kinds)))
            print(f"{mu['name']:55s} {p} exit={r.returncode} {time.time()-t0:5.1f}s tests[{tests}] {','.join(kinds)}", flush=True)
            if r.returncode == 2:
                print("   ", [l for l in r.stdout.splitlines() if "INCONCLUSIVE" in l][:2])
    finally:
        shutil.rmtree(scratch, ignore_errors=True)
expect = {mu["name"]: mu.get("expect", 1) for mu in MUTANTS}
missed = [r for r in rows if r[2] != expect[r[0]]]
print(f"\n{len(rows) - len(missed)}/{len(rows)} (mutant,check) pairs detected; missed: {[(r[0], r[1], r[2]) for r in missed]}")
