#!/usr/bin/env python3
"""Theme-focused variant of tools/gen_file_prompts.py: each sub-agent gets ALL property statements and a THEME (the kind of commit
its regression has to look like); it may touch any file.  The mechanisms already tried are listed by title only.

usage: tools/gen_theme_prompts.py <outdir> <name>="<theme text>" ...
Nothing about /verif (checks, oracles, workloads) is disclosed; `{wt}` is the agent's private scratch worktree.
"""
import json, os, sys

ROOT = os.path.dirname(os.path.dirname(os.path.abspath(__file__)))
out = sys.argv[1]
os.makedirs(out, exist_ok=True)
props = [json.loads(l) for l in open(os.path.join(ROOT, "properties.jsonl"))]
plist = "\n".join(f'  {p["id"]} ({p["title"]}): "{p["statement"]}" -- meant to hold {p["quantifier"]["text"]}' for p in props)
tried = {}
for d in sorted(os.listdir(os.path.join(ROOT, "seeded"))):
    diff = os.path.join(ROOT, "seeded", d, "patch.diff")
    note = os.path.join(ROOT, "seeded", d, "NOTE.md")
    if not os.path.exists(diff):
        continue
    files = [l[6:].strip() for l in open(diff) if l.startswith("+++ b/")]
    text = open(note).read() if os.path.exists(note) else ""
    lines = [l.strip(" -*#") for l in text.splitlines() if l.strip() and not l.startswith("#")]
    first = " ".join(" ".join(lines[:2]).split())[:260].replace("**", "")
    for f in files:
        tried.setdefault(f, []).append(f"   * {d}: {first}")

T = """You are helping to evaluate a verification suite for the open-source Python library TorchJD/torchjd (Jacobian descent for PyTorch). Your job is to play the role of a developer who introduces a subtle regression.

Your private scratch copy of the repository is the git worktree at {{wt}} (source under {{wt}}/src/torchjd, tests under {{wt}}/tests). Work ONLY inside {{wt}}. Do NOT read, list or touch /verif or /repo (other than through your own worktree), and do not look at any other /tmp/wt* directory.

To run code against your copy use:  cd {{wt}} && PYTHONPATH={{wt}}/src /venv/bin/python <script>     (PYTHONPATH makes your copy win over the installed one)
To run the existing test suite (about 20 s, 1448 tests):  cd {{wt}} && PYTHONPATH={{wt}}/src /venv/bin/python -m pytest -q -p no:cacheprovider tests
There is no network.

THE PROPERTIES users rely on:
{plist}

TASK: make ONE realistic change, anywhere under {{wt}}/src/torchjd, that looks like the following kind of commit: {files}. (A few lines; a second cooperating site elsewhere is allowed if each site looks fine alone.) It must be such that
  (1) the library still imports and the ENTIRE existing test suite still passes (run it and confirm: all 1448 pass), and
  (2) at least one of the properties above is broken (say which), but ONLY under something specific: an unusual input or configuration, a particular multi-step sequence of calls, a particular argument position or order, a specific size/shape/dtype/layout combination, etc. Ordinary first-try usage (e.g. the README example) should still behave correctly. Avoid changes that break a property on nearly every call.
More than a hundred regressions have ALREADY been tried by other developers; here are their titles - choose a clearly different mechanism and, if you can, a different place:
{tried}
Prefer breaking the behaviour a property describes over raising exceptions. Do not edit the tests.

DELIVERABLES, all inside {{wt}}:
  - leave your source change applied in the worktree, and also write it to {{wt}}/CHANGE.diff  (cd {{wt}} && git diff -- src > CHANGE.diff)
  - {{wt}}/demo.py : a small standalone program using only torchjd (+ torch/numpy; the building blocks under torchjd.autojac._transform may be imported if the property is about them) that exits with status 1 and prints what went wrong when run against your changed copy, and exits 0 against the unchanged library. Verify both: run it with PYTHONPATH={{wt}}/src (must fail); then revert your change with `git apply -R CHANGE.diff`, run it again (must pass), and re-apply with `git apply CHANGE.diff`. NEVER use `git stash` (the stash is shared with other worktrees of the same repository and will corrupt them).
  - {{wt}}/NOTE.md : first line `# <short-id-like-title>`, second line `Breaks: Cxx` (the id of the property your change breaks most directly), then 5-10 lines: what you changed, why it is plausible, exactly what is needed for it to manifest, and the test-suite result you observed.
Finish by printing the contents of CHANGE.diff and NOTE.md in your final answer."""

titles = ", ".join(sorted(d.split("-", 2)[2] if d.count("-") >= 2 else d for d in os.listdir(os.path.join(ROOT, "seeded")) if os.path.isdir(os.path.join(ROOT, "seeded", d))))
for spec in sys.argv[2:]:
    name, theme = spec.split("=", 1)
    txt = T.format(plist=plist, files=theme, tried="   " + titles)
    open(os.path.join(out, f"T-{name}.txt"), "w").write(txt)
    print("wrote", os.path.join(out, f"T-{name}.txt"), len(txt))
