#!/usr/bin/env python3
"""Confirms a seeded property-breaking change produced by an independent sub-agent and files it under /verif/seeded/<id>/.

usage: tools/seeded.py <id> <worktree> <property> [--also C05,C06] [--tier quick]

Steps (all against the agent's scratch worktree, never /repo):
  1. the repository's own test suite passes with the change applied (PYTHONPATH=<worktree>/src);
  2. demo.py fails (exit != 0) with the change and passes (exit 0) with the change stashed;
  3. the targeted check (and any --also checks) run with VERIF_REPO=<worktree>; exit codes recorded;
  4. patch.diff, demo.py, NOTE.md and meta.json are copied to /verif/seeded/<id>/.
"""
import argparse, json, os, shutil, subprocess, sys, time

ROOT = os.path.dirname(os.path.dirname(os.path.abspath(__file__)))
ap = argparse.ArgumentParser()
ap.add_argument("id")
ap.add_argument("worktree")
ap.add_argument("prop")
ap.add_argument("--also", default="")
ap.add_argument("--tier", default="quick")
ap.add_argument("--seeds", default="0")
a = ap.parse_args()
wt = a.worktree
env = dict(os.environ, PYTHONPATH=os.path.join(wt, "src"), PYTHONDONTWRITEBYTECODE="1")


def sh(cmd, **kw):
    return subprocess.run(cmd, capture_output=True, text=True, **kw)


# (git stash is shared between the worktrees of one repository: never used here; the agent's CHANGE.diff is the reference)
change = os.path.join(wt, "CHANGE.diff")
if not os.path.exists(change):
    sys.exit("no CHANGE.diff in the worktree")
sh(["git", "checkout", "--", "src"], cwd=wt)
r = sh(["git", "apply", "CHANGE.diff"], cwd=wt)
if r.returncode != 0:
    sys.exit("CHANGE.diff does not apply to a clean worktree: " + r.stderr[:300])
diff = sh(["git", "diff", "--", "src"], cwd=wt).stdout
if not diff.strip():
    sys.exit("no source change in the worktree")
meta = {"id": a.id, "breaks_property": a.prop, "worktree_base": sh(["git", "rev-parse", "HEAD"], cwd=wt).stdout.strip()}
t = sh(["/venv/bin/python", "-m", "pytest", "-q", "-p", "no:cacheprovider", "tests"], cwd=wt, env=env)
meta["repo_tests_with_change"] = (t.stdout.strip().splitlines() or ["?"])[-1]
d1 = sh(["/venv/bin/python", "demo.py"], cwd=wt, env=env)
meta["demo_with_change_exit"] = d1.returncode
meta["demo_with_change_output"] = (d1.stdout + d1.stderr)[-600:]
sh(["git", "apply", "-R", "CHANGE.diff"], cwd=wt)
try:
    d0 = sh(["/venv/bin/python", "demo.py"], cwd=wt, env=env)
finally:
    sh(["git", "apply", "CHANGE.diff"], cwd=wt)
meta["demo_without_change_exit"] = d0.returncode
meta["checks"] = {}
for p in [a.prop] + [x for x in a.also.split(",") if x]:
    for seed in a.seeds.split(","):
        t0 = time.time()
        r = sh([os.path.join(ROOT, "check"), p, "--tier", a.tier], env=dict(os.environ, VERIF_REPO=wt, VERIF_SEED=seed,
                                                                             VERIF_EVIDENCE_DIR=os.path.join(wt, ".ev")))
        kinds = sorted({l.split("kind=")[1].split()[0] for l in r.stdout.splitlines() if "violation kind=" in l})
        meta["checks"][f"{p}@seed{seed}/{a.tier}"] = {"exit": r.returncode, "wall_s": round(time.time() - t0, 1), "violation_kinds": kinds,
                                                       "verdict_line": [l for l in r.stdout.splitlines() if l.startswith(("VIOLATION", "HELD", "INCONCLUSIVE"))][:1]}
ok = ("passed" in meta["repo_tests_with_change"] and "failed" not in meta["repo_tests_with_change"] and meta["demo_with_change_exit"] != 0
      and meta["demo_without_change_exit"] == 0)
meta["confirmed_realistic"] = bool(ok)
meta["caught_by_targeted_check"] = any(v["exit"] == 1 for k, v in meta["checks"].items() if k.startswith(a.prop + "@"))
note = os.path.join(wt, "NOTE.md")
meta["needs_to_manifest"] = open(note).read()[:1500] if os.path.exists(note) else ""
meta["what_was_run"] = "repository tests with the change; demo.py with / without the change; ./check <prop> with VERIF_REPO=<scratch worktree>"
print(json.dumps({k: v for k, v in meta.items() if k != "needs_to_manifest"}, indent=1))
if ok:
    dst = os.path.join(ROOT, "seeded", a.id)
    os.makedirs(dst, exist_ok=True)
    open(os.path.join(dst, "patch.diff"), "w").write(diff)
    shutil.copy(os.path.join(wt, "demo.py"), os.path.join(dst, "demo.py"))
    if os.path.exists(note):
        shutil.copy(note, os.path.join(dst, "NOTE.md"))
    json.dump(meta, open(os.path.join(dst, "meta.json"), "w"), indent=1)
    print("filed under", dst)
else:
    print("NOT confirmed (tests fail with the change, or the demo does not discriminate): not kept")
