#!/bin/sh
# MANIFEST.setup_cmd: offline install of the two harness-side libraries next to the repository's interpreter.
# Idempotent; `check` re-runs it when .deps is absent.  Nothing is fetched from a network.
set -e
cd "$(dirname "$0")"
if [ ! -d .deps/icontract ] || [ ! -d .deps/jsonschema ]; then
  rm -rf .deps
  PIP_NO_INDEX=1 /venv/bin/pip install --quiet --no-index --find-links /opt/veriftools/wheels \
      --target .deps icontract jsonschema >/dev/null 2>&1 || {
        echo "setup: wheel install failed; contracts fall back to the built-in wrapper, evidence validated by the built-in checker" >&2; mkdir -p .deps; }
fi
mkdir -p evidence replays .work
exit 0
